"""C09 — bus bridges and AXI-Lite converters preserve memory semantics and protocol rules (DESIGN.md §4 C09).
A master driver (AXI-Lite or Wishbone) in front of the real bridge / converter / SRAM, an environment memory slave of the
other protocol behind it (reactive readies, free response delay; contents in the environment state), flat byte-memory
reference with a per-byte *allowed set* for reads that overlap writes (AXI has no read/write channel ordering)."""
import itertools
import fsmc  # noqa
from migen import *
from litex.soc.interconnect import wishbone, csr_bus
from litex.soc.interconnect.axi import axi_lite, axi_full
from litex.soc.interconnect.axi import AXILite2Wishbone, Wishbone2AXILite, AXILite2CSR
from litex.soc.interconnect.axi.axi_common import RESP_OKAY, RESP_SLVERR
from fsmc.explore import Explorer, replay_stock, Harness, COOP, PROGRESS
from fsmc.design import MachineryError

PROPERTY = "C09"
LEVEL = "model_checking"
RULE = ("BFS to closure of (real bridge / converter / SRAM FHDL x master driver x environment memory slave x flat byte-memory reference) under "
        "every master schedule (AW/W together, W late, free bready/rready, reads and writes sequential or concurrent) over 2 addresses x strobe "
        "menu x 2 data marks, and every slave ready / response-delay choice")
ASSUMPTIONS = [
    "2-state zero-delay FHDL semantics of litex.gen.sim",
    "reads concurrent with writes: per byte the value when AR was first offered or any value written by an overlapping write (DESIGN 4b)",
    "environment honours the AXI dependency rules; base runs: AW not after W, one outstanding request per direction, slaves do not answer with errors",
    "CSR bridges: base runs write with full strobes (the CSR bus has no byte enables; '+partial_strb' explores the rest)",
    "addresses: 2 words; data = per-lane marks",
]

ADRW = 6


def lane_byte(mark, word, lane):
    return (mark << 5) | ((word & 3) << 3) | (lane + 1)


def port(D, itf, chans):
    p = {}
    for ch in chans:
        ep = getattr(itf, ch)
        p[ch] = dict(valid=D.i(ep.valid), ready=D.i(ep.ready), first=D.i(ep.first), last=D.i(ep.last))
        for (fn, w) in ep.description.payload_layout + ep.description.param_layout:
            p[ch][fn] = D.i(getattr(ep, fn))
    return p


class DUT(Module):
    def __init__(self, kind, p):
        mw, sw = p.get("mw", 32), p.get("sw", 32)
        self.mkind, self.skind = "axil", None
        if kind == "axil_sram":
            self.m = axi_lite.AXILiteInterface(data_width=mw, address_width=ADRW)
            init = [0x5A5A5A5A & ((1 << mw) - 1)]*(p["nbytes"]//(mw//8)) if p.get("read_only") else None
            if p.get("as_memory"):
                # the caller's own Memory (tagged bus_read_only for the read-only case) instead of a size
                mem = Memory(mw, p["nbytes"]//(mw//8), init=init)
                if p.get("read_only"):
                    mem.bus_read_only = True
                self.specials += mem
                self.submodules.dut = axi_lite.AXILiteSRAM(mem, bus=self.m)
            else:
                self.submodules.dut = axi_lite.AXILiteSRAM(p["nbytes"], bus=self.m, read_only=p.get("read_only"), init=init)
        elif kind in ("axil_down", "axil_up", "axil_conv"):
            self.m = axi_lite.AXILiteInterface(data_width=mw, address_width=ADRW)
            self.s = axi_lite.AXILiteInterface(data_width=sw, address_width=ADRW)
            cls = dict(axil_down=axi_lite.AXILiteDownConverter, axil_up=axi_lite.AXILiteUpConverter, axil_conv=axi_lite.AXILiteConverter)[kind]
            self.submodules.dut = cls(self.m, self.s)
            self.skind = "axil"
        elif kind == "axil2wb":
            self.m = axi_lite.AXILiteInterface(data_width=mw, address_width=ADRW)
            self.s = wishbone.Interface(data_width=mw, adr_width=ADRW - log2_int(mw//8))
            self.submodules.dut = AXILite2Wishbone(self.m, self.s, base_address=p.get("base", 0))
            self.skind = "wb"
        elif kind == "wb2axil":
            self.m = wishbone.Interface(data_width=mw, adr_width=ADRW - log2_int(mw//8))
            self.s = axi_lite.AXILiteInterface(data_width=mw, address_width=ADRW)
            self.submodules.dut = Wishbone2AXILite(self.m, self.s, base_address=p.get("base", 0))
            self.mkind, self.skind = "wb", "axil"
        elif kind == "adapter":
            # the chain SoCBusHandler.add_adapter really builds (data width, addressing and standard conversion)
            from litex.soc.integration.soc import SoCBusHandler
            def iface(t, dw):
                if t == "wb":
                    return wishbone.Interface(data_width=dw, address_width=32, addressing="word")
                return axi_lite.AXILiteInterface(data_width=dw, address_width=32)
            std = {"wb": "wishbone", "axil": "axi-lite"}[p["bus"]]
            self.submodules.bus = bus = SoCBusHandler(standard=std, data_width=p["bdw"], address_width=32)
            if p["direction"] == "m2s":
                self.m = iface(p["itf"], p["idw"])
                self.s = bus.add_adapter("m", self.m, "m2s")
                self.mkind, self.skind = p["itf"], p["bus"]
            else:
                self.s = iface(p["itf"], p["idw"])
                self.m = bus.add_adapter("s", self.s, "s2m")
                self.mkind, self.skind = p["bus"], p["itf"]
        elif kind == "ahb2wb":
            from litex.soc.interconnect import ahb
            self.m = ahb.AHBInterface(data_width=mw, address_width=ADRW)
            self.s = wishbone.Interface(data_width=mw, adr_width=ADRW - log2_int(mw//8))
            self.submodules.dut = ahb.AHB2Wishbone(self.m, self.s)
            self.mkind, self.skind = "ahb", "wb"
        elif kind == "axil2csr":
            self.m = axi_lite.AXILiteInterface(data_width=mw, address_width=ADRW)
            self.s = csr_bus.Interface(data_width=mw, address_width=ADRW - log2_int(mw//8))
            self.submodules.dut = AXILite2CSR(self.m, self.s, register=p.get("register", False))
            self.skind = "csr"
        elif kind == "wb2csr":
            self.m = wishbone.Interface(data_width=mw, adr_width=ADRW - log2_int(mw//8))
            self.s = csr_bus.Interface(data_width=mw, address_width=ADRW - log2_int(mw//8))
            self.submodules.dut = wishbone.Wishbone2CSR(self.m, self.s, register=p.get("register", True))
            self.mkind, self.skind = "wb", "csr"
        else:
            raise ValueError(kind)


class BridgeHarness(Harness):
    """env = (wr, rd, ref, back, slave, misc)
         wr: ('I',) | ('A', op, aw_up, w_up, aw_done, w_done) | ('B', op) | ('T',)      op = (word, strb, mark)
         rd: ('I',) | ('A', word, allowed) | ('R', word, allowed) | ('T',)              allowed = per lane tuple of allowed byte values
         slave (axil): (aw, w, b_up, ar, r_up/data) ; (wb): (lat, lastreq) ; (csr): (dat_r expected next,)"""

    def __init__(self, name, kind, words=(0, 1), strbs=None, conc=False, w_late=True, w_before_aw=False, maxlat=1, err=False,
                 pipelined=False, cap=None, marks=(1, 2), b2b=False, busy=False, seq=False, eager_ready=False, **p):
        self.name, self.kind, self.p = name, kind, p
        self.mw, self.sw = p.get("mw", 32), p.get("sw", p.get("mw", 32))
        self.nl = self.mw//8
        self.words = list(words)
        self.strbs = list(strbs) if strbs is not None else list(range(1 << self.nl))
        self.conc, self.w_late, self.w_before_aw, self.maxlat, self.err, self.marks = conc, w_late, w_before_aw, maxlat, err, marks
        self.nbytes = p.get("nbytes", 8)
        self.b2b = b2b
        self.eager_ready = int(eager_ready)   # AXI-Lite master: bready / rready high whenever no response is awaited (default-high readies)
        self.seq = seq          # AHB master: a pipelined next transfer at the following address is the SEQ beat of an INCR burst
        self.busy = busy        # AHB master: transfers are announced as undefined-length INCR bursts and BUSY cycles may follow them
        self.base = p.get("base", 0)
        if cap:
            self.cap = cap
        self.live_queries = (("live.deadlock", COOP, PROGRESS, (), "the master keeps its request, the slave side cooperates, the request never completes"),)
        self.cov = dict(writes=0, reads=0, overlap=0, w_first=0, slave_writes=0)

    def build(self):
        self.dut = DUT(self.kind, self.p)
        return self.dut

    def bind(self, D):
        d = self.dut
        self.mk, self.sk = d.mkind, d.skind
        if self.mk == "axil":
            self.M = port(D, d.m, ("aw", "w", "b", "ar", "r"))
        elif self.mk == "ahb":
            self.M = {n: D.i(getattr(d.m, n)) for n in ("addr", "burst", "mastlock", "prot", "size", "trans", "wdata", "write", "sel", "rdata", "readyout", "resp")}
            # AHB operations: (write, byte address, size, mark), address aligned to the transfer size
            self.ahbops = [(wr, w*self.nl + off, sz, mk) for wr in (0, 1) for w in self.words for sz in range(log2_int(self.nl) + 1)
                           for off in range(0, self.nl, 1 << sz) for mk in (self.marks if wr else (0,))
                           if w == self.words[0] or sz == log2_int(self.nl)]
            # address phases presented during a data phase (pipelined): a reduced menu
            self.ahbnext = [op for op in self.ahbops if op[2] == log2_int(self.nl) or (op[1] % self.nl == 1 and op[2] == 0)]
        else:
            self.M = {n: D.i(getattr(d.m, n)) for n in ("cyc", "stb", "we", "adr", "dat_w", "sel", "cti", "bte", "ack", "err", "dat_r")}
        if self.sk == "axil":
            self.S = port(D, d.s, ("aw", "w", "b", "ar", "r"))
        elif self.sk == "wb":
            self.S = {n: D.i(getattr(d.s, n)) for n in ("cyc", "stb", "we", "adr", "dat_w", "sel", "ack", "err", "dat_r")}
        elif self.sk == "csr":
            self.S = {n: D.i(getattr(d.s, n)) for n in ("adr", "we", "re", "dat_w", "dat_r")}
        self.wops = [(w, s, mk) for w in self.words for s in self.strbs for mk in self.marks]
        self.snl = self.sw//8

    def init_byte(self, a):
        if self.kind == "axil_sram":
            return 0x5A if self.p.get("read_only") else 0
        if self.sk == "csr":
            return 0
        return (0xE0 | a) & 0xFF

    def env_init(self):
        mem = tuple(self.init_byte(a) for a in range(self.nbytes))
        if self.sk == "axil":
            sl = (None, None, 0, None, None, 0, 0, 0, 0)      # aw, w, b_up(1=okay,2=err), ar, r, r_err, errw seen, errr seen, -
        elif self.sk == "wb":
            sl = (0, None, 0)
        elif self.sk == "csr":
            sl = (0,)
        else:
            sl = ()
        return (("I",), ("I",), mem, mem if self.sk else (), sl, None)

    # ---- choices ------------------------------------------------------------------------------------
    def choices(self, env):
        wr, rd, ref, back, sl, stall = env
        if self.mk == "axil":
            if wr[0] in ("I", "T"):
                wc = [("idle",)]
                if (wr[0] == "I" or self.b2b) and (self.conc or rd[0] in ("I", "T")):
                    for op in self.wops:
                        wc.append(("start", op, 1, 1))
                        if self.w_late:
                            wc.append(("start", op, 1, 0))
                        if self.w_before_aw:
                            wc.append(("start", op, 0, 1))
            elif wr[0] == "A":
                _, op, aw_up, w_up, aw_done, w_done = wr
                wc = [("cont", a, w) for a in ([1] if (aw_up or aw_done) else [0, 1]) for w in ([1] if (w_up or w_done) else [0, 1])]
            else:
                wc = [("b", 0), ("b", 1)]
            if rd[0] in ("I", "T"):
                rc = [("idle",)]
                if (rd[0] == "I" or self.b2b) and (self.conc or wr[0] in ("I", "T")):
                    rc += [("start", w) for w in self.words]
            elif rd[0] == "A":
                rc = [("hold",)]
            else:
                rc = [("r", 0), ("r", 1)]
            mch = [(a, b) for a in wc for b in rc if self.conc or not (a[0] == "start" and b[0] == "start")]
        elif self.mk == "ahb":
            if wr[0] == "D":
                # data phase: optionally present the address phase of the next transfer (held once presented)
                mch = [(("hold", wr[2]), ("-",))] if wr[2] is not None else [(("hold", None), ("-",))] + [(("hold", op), ("-",)) for op in self.ahbnext]
                if wr[2] is None and self.busy:
                    mch.append((("hold", "busy"), ("-",)))      # BUSY in the address slot (held while HREADY is low), then the burst ends
            else:
                mch = [(("idle",), ("-",))] + [(("ahb", op), ("-",)) for op in self.ahbops]
        else:
            # wishbone master: one operation at a time
            if wr[0] == "A":
                mch = [(("hold",), ("-",))]
            else:
                mch = [(("idle",), ("-",))]
                if wr[0] == "I":
                    mch += [(("wbw", op), ("-",)) for op in self.wops] + [(("wbr", (w, s, 0)), ("-",)) for w in self.words for s in self.strbs if s]
        if self.sk == "axil":
            aw, w, b_up, ar, r = sl[:5]
            c_aw = [0, 1] if aw is None else [1]
            c_w = [0, 1] if w is None else [1]
            c_b = [0, 1] if (aw is not None and w is not None and not b_up) else [0]
            c_ar = [0, 1] if ar is None else [1]
            c_r = [0, 1] if (ar is not None and r is None) else [0]
            if self.err:
                c_b = c_b + ([2] if 1 in c_b else [])       # 2 = raise the response with SLVERR
                c_r = c_r + ([2] if 1 in c_r else [])
            sch = list(itertools.product(c_aw, c_w, c_b, c_ar, c_r))
        elif self.sk == "wb":
            sch = [("a",)] + ([("w",)] if sl[0] < self.maxlat else []) + ([("e",)] if (self.err and not sl[2]) else [])
        else:
            sch = [()]
        return [(m, s) for m in mch for s in sch]

    def wop(self, env, ch):
        wr = env[0]
        c = ch[0][0]
        if c[0] == "start":
            return c[1], c[2], c[3], 0
        if c[0] == "cont":
            _, op, aw_up, w_up, aw_done, w_done = wr
            return op, int(c[1] and not aw_done), int(c[2] and not w_done), 0
        if c[0] == "b":
            return wr[1], 0, 0, c[1]
        return None

    def rop(self, env, ch):
        rd = env[1]
        c = ch[0][1]
        if c[0] == "start":
            return c[1], 1, 0
        if c[0] == "hold":
            return rd[1], 1, 0
        if c[0] == "r":
            return rd[1], 0, c[1]
        return None

    def wbop(self, env, ch):
        c = ch[0][0]
        if c[0] == "hold":
            return env[0][1]
        if c[0] in ("wbw", "wbr"):
            return (c[0],) + tuple(c[1])
        return None

    def wdata(self, op):
        return sum(lane_byte(op[2], op[0], l) << (8*l) for l in range(self.nl))

    def ahb_wdata(self, op):
        # AHB write data sits on the byte lanes the address selects; other lanes carry a different pattern
        word = op[1]//self.nl
        return sum(lane_byte(op[3], word, l) << (8*l) for l in range(self.nl))

    def ahb_lanes(self, op):
        off = op[1] % self.nl
        return range(off, off + (1 << op[2]))

    def drive(self, v, env, ch):
        M = self.M
        if self.mk == "axil":
            w = self.wop(env, ch)
            v[M["aw"]["valid"]], v[M["aw"]["addr"]] = 0, (1 << ADRW) - 1
            v[M["w"]["valid"]], v[M["w"]["data"]], v[M["w"]["strb"]] = 0, (1 << self.mw) - 1, (1 << self.nl) - 1
            v[M["b"]["ready"]] = self.eager_ready
            if w is not None:
                op, av, wv, br = w
                if av:
                    v[M["aw"]["valid"]], v[M["aw"]["addr"]] = 1, self.base + op[0]*self.nl
                if wv:
                    v[M["w"]["valid"]], v[M["w"]["data"]], v[M["w"]["strb"]] = 1, self.wdata(op), op[1]
                if ch[0][0][0] == "b":
                    v[M["b"]["ready"]] = br
            r = self.rop(env, ch)
            v[M["ar"]["valid"]], v[M["ar"]["addr"]] = 0, (1 << ADRW) - 1
            v[M["r"]["ready"]] = self.eager_ready
            if r is not None:
                word, arv, rr = r
                if arv:
                    v[M["ar"]["valid"]], v[M["ar"]["addr"]] = 1, self.base + word*self.nl
                if ch[0][1][0] == "r":
                    v[M["r"]["ready"]] = rr
        elif self.mk == "ahb":
            c = ch[0][0]
            wr = env[0]
            adr_op = c[1] if c[0] in ("ahb", "hold") else None
            v[M["sel"]] = 1
            v[M["burst"]] = v[M["mastlock"]] = v[M["prot"]] = 0
            if self.busy or self.seq:
                v[M["burst"]] = 1            # INCR, undefined length
            if adr_op == "busy":
                # a slave must ignore BUSY: the lines announce the next address of the burst, as a write
                cur = wr[1]
                v[M["trans"]], v[M["addr"]], v[M["size"]], v[M["write"]] = 1, self.base + ((cur[1]//self.nl + 1) % 2)*self.nl, log2_int(self.nl), 1
            elif adr_op is not None:
                v[M["trans"]], v[M["addr"]], v[M["size"]], v[M["write"]] = 2, self.base + adr_op[1], adr_op[2], adr_op[0]
                if self.seq and wr[0] == "D" and (adr_op[0], adr_op[2]) == (wr[1][0], wr[1][2]) and adr_op[1] == wr[1][1] + (1 << wr[1][2]):
                    v[M["trans"]] = 3        # SEQ: same direction and size, next address
                    self.cov["seq_beats"] = self.cov.get("seq_beats", 0) + 1
            else:
                v[M["trans"]], v[M["addr"]], v[M["size"]], v[M["write"]] = 0, (1 << ADRW) - 1, 2, 1
            v[M["wdata"]] = (1 << self.mw) - 1
            if wr[0] == "D" and wr[1][0]:
                v[M["wdata"]] = self.ahb_wdata(wr[1])
        else:
            op = self.wbop(env, ch)
            if op is None:
                v[M["cyc"]] = v[M["stb"]] = 0
                v[M["adr"]], v[M["we"]], v[M["sel"]], v[M["dat_w"]] = (1 << (ADRW - 2)) - 1, 1, (1 << self.nl) - 1, (1 << self.mw) - 1
            else:
                v[M["cyc"]] = v[M["stb"]] = 1
                v[M["adr"]], v[M["we"]], v[M["sel"]] = self.base//self.nl + op[1], int(op[0] == "wbw"), op[2]
                v[M["dat_w"]] = self.wdata(op[1:]) if op[0] == "wbw" else 0
            v[M["cti"]] = v[M["bte"]] = 0
        S, sl, back = getattr(self, "S", None), env[4], env[3]
        if self.sk == "axil":
            aw, w, b_up, ar, r, r_err = sl[:6]
            sc = ch[1]
            v[S["aw"]["ready"]] = int(sc[0] and aw is None)
            v[S["w"]["ready"]] = int(sc[1] and w is None)
            bv = int((b_up or sc[2]) and aw is not None and w is not None)
            berr = (b_up == 2) or (not b_up and sc[2] == 2)
            v[S["b"]["valid"]], v[S["b"]["resp"]] = bv, ((RESP_SLVERR if berr else RESP_OKAY) if bv else 3)
            v[S["ar"]["ready"]] = int(sc[3] and ar is None)
            if ar is not None and (r is not None or sc[4]):
                data = r if r is not None else self.sread(back, ar)
                rerr = r_err if r is not None else (sc[4] == 2)
                v[S["r"]["valid"]], v[S["r"]["resp"]], v[S["r"]["data"]] = 1, (RESP_SLVERR if rerr else RESP_OKAY), data
            else:
                v[S["r"]["valid"]], v[S["r"]["resp"]], v[S["r"]["data"]] = 0, 3, (1 << self.sw) - 1
        elif self.sk == "wb":
            v[S["ack"]] = v[S["err"]] = 0
            v[S["dat_r"]] = (1 << self.sw) - 1
        elif self.sk == "csr":
            v[S["dat_r"]] = sl[0]

    def sread(self, back, word):
        base = word*self.snl
        return sum(back[(base + b) % self.nbytes] << (8*b) for b in range(self.snl))

    def react(self, v, env, ch):
        if self.sk != "wb":
            return False
        S = self.S
        vis = v[S["cyc"]] and v[S["stb"]]
        c = ch[1][0]
        a = 1 if (vis and c == "a") else 0
        e = 1 if (vis and c == "e") else 0
        dr = self.sread(env[3], v[S["adr"]]) if (a and not v[S["we"]]) else (1 << self.sw) - 1
        if (v[S["ack"]], v[S["err"]], v[S["dat_r"]]) != (a, e, dr):
            v[S["ack"]], v[S["err"]], v[S["dat_r"]] = a, e, dr
            return True
        return False

    # ---- monitors -----------------------------------------------------------------------------------
    def apply_write(self, mem, word, strb, data, nl):
        ml = list(mem)
        base = word*nl
        for b in range(nl):
            if (strb >> b) & 1:
                ml[(base + b) % self.nbytes] = (data >> (8*b)) & 0xFF
        return tuple(ml)

    def observe(self, v, env, ch):
        wr, rd, ref, back, sl, stall = env
        M = self.M
        hs = lambda P, c: bool(v[P[c]["valid"]] and v[P[c]["ready"]])
        flags = 0
        coop = True
        active = False
        # ---------------- slave side ----------------
        back2, sl2 = back, sl
        snap = None
        if self.sk == "axil":
            S = self.S
            aw, w, b_up, ar, r, r_err, errw, errr = sl[:8]
            snap = tuple((v[S[c]["valid"]], v[S[c]["ready"]]) + tuple(v[S[c][f]] for f in fs) for c, fs in (("aw", ("addr",)), ("w", ("data", "strb")), ("ar", ("addr",))))
            if stall is not None:
                for k, (old, new) in enumerate(zip(stall, snap)):
                    if old is not None:
                        if not new[0]:
                            return env, ("proto.valid_withdrawn", f"slave-side channel {('aw', 'w', 'ar')[k]}: valid withdrawn before ready"), 0
                        if new[2:] != old:
                            return env, ("proto.payload_changed", f"slave-side channel {('aw', 'w', 'ar')[k]}: {old} -> {new[2:]} while valid & ~ready"), 0
            if hs(S, "aw"):
                a = v[S["aw"]["addr"]]
                if a >= self.nbytes:
                    return env, ("addr.range", f"slave-side AW address {a:#x} outside the {self.nbytes}-byte window the master addresses"), 0
                aw = a // self.snl
            if hs(S, "w"):
                w = (v[S["w"]["data"]], v[S["w"]["strb"]])
            sc = ch[1]
            bv = v[S["b"]["valid"]]
            if aw is not None and w is not None and not b_up and bv:
                # the write takes effect when the slave raises B
                back2 = self.apply_write(back, aw, w[1], w[0], self.snl)
                self.cov["slave_writes"] += 1
            bstate = 0
            if bv:
                bstate = 2 if v[S["b"]["resp"]] != RESP_OKAY else 1
            if hs(S, "b"):
                if v[S["b"]["resp"]] != RESP_OKAY:
                    errw = 1
                aw, w, bstate = None, None, 0
            if hs(S, "ar"):
                if v[S["ar"]["addr"]] >= self.nbytes:
                    return env, ("addr.range", f"slave-side AR address {v[S['ar']['addr']]:#x} outside the {self.nbytes}-byte window the master addresses"), 0
                ar = v[S["ar"]["addr"]] // self.snl
            rv = v[S["r"]["valid"]]
            if rv and r is None:
                r = v[S["r"]["data"]]
                r_err = int(v[S["r"]["resp"]] != RESP_OKAY)
            if hs(S, "r"):
                if v[S["r"]["resp"]] != RESP_OKAY:
                    errr = 1
                ar, r, r_err = None, None, 0
            sl2 = (aw, w, bstate, ar, r, r_err, errw, errr, 0)
            if not (sc[0] and sc[1] and sc[3]):
                coop = False
            if (sl[0] is not None and sl[1] is not None and not sl[2] and not sc[2]) or (sl[3] is not None and sl[4] is None and not sc[4]):
                coop = False
        elif self.sk == "wb":
            S = self.S
            lat, last, errseen = sl
            vis = v[S["cyc"]] and v[S["stb"]]
            sl2 = (0, None, errseen)
            if vis:
                req = (v[S["adr"]], v[S["we"]], v[S["sel"]], v[S["dat_w"]] if v[S["we"]] else 0)
                if req[0]*self.snl >= self.nbytes:
                    return env, ("addr.range", f"wishbone address {req[0]:#x} outside the {self.nbytes}-byte window the master addresses"), 0
                if last is not None and req != last:
                    return env, ("proto.wb_unstable", f"wishbone request changed while waiting for ack: {last} -> {req}"), 0
                c = ch[1][0]
                if c == "a":
                    if req[1]:
                        back2 = self.apply_write(back, req[0], req[2], req[3], self.snl)
                        self.cov["slave_writes"] += 1
                elif c == "w":
                    sl2 = (lat + 1, req, errseen)
                    coop = False
                elif c == "e":
                    sl2 = (0, None, 1)        # the slave terminated this cycle with err: the master must be told
        elif self.sk == "csr":
            S = self.S
            a = v[S["adr"]]
            if v[S["we"]]:
                back2 = self.apply_write(back, a, (1 << self.snl) - 1, v[S["dat_w"]], self.snl)
                self.cov["slave_writes"] += 1
            sl2 = (self.sread(back, a),)
        # ---------------- master side ----------------
        ref2 = ref
        if self.mk == "axil":
            w = self.wop(env, ch)
            r = self.rop(env, ch)
            aw_hs, w_hs, b_hs, ar_hs, r_hs = (hs(M, c) for c in ("aw", "w", "b", "ar", "r"))
            if (aw_hs or w_hs) and (w is None or wr[0] == "B"):
                return env, ("resp.ready_stray", "aw/w ready handshake without a request"), 0
            if v[M["b"]["valid"]] and wr[0] != "B":
                return env, ("resp.b_stray", f"b.valid in write state {wr[0]}"), 0
            if v[M["r"]["valid"]] and rd[0] != "R":
                return env, ("resp.r_stray", f"r.valid in read state {rd[0]}"), 0
            wr2 = wr
            inflight = None
            c = ch[0][0]
            if c[0] in ("start", "cont"):
                active = True
                op, av, wv, _ = w
                if wv and not av and c[0] == "start":
                    self.cov["w_first"] += 1
                aw_done = (wr[4] if wr[0] == "A" else 0) or aw_hs
                w_done = (wr[5] if wr[0] == "A" else 0) or w_hs
                if aw_done and w_done:
                    wr2 = ("B", op)
                else:
                    wr2 = ("A", op, int(av and not aw_hs), int(wv and not w_hs), int(aw_done), int(w_done))
                    if not (av or aw_done) or not (wv or w_done):
                        coop = False
                inflight = op
            elif c[0] == "b":
                active = True
                inflight = wr[1]
                if not c[1]:
                    coop = False
                if b_hs:
                    if self.err and self.sk == "axil":
                        seen = sl2[6]
                        if seen and v[M["b"]["resp"]] == RESP_OKAY:
                            return env, ("resp.err_dropped", "a slave-side write of this request was answered with an error, the master receives OKAY"), 0
                        if not seen and v[M["b"]["resp"]] != RESP_OKAY:
                            return env, ("resp.err_invented", f"all slave-side writes of this request were answered OKAY, the master receives resp={v[M['b']['resp']]}"), 0
                        sl2 = sl2[:6] + (0,) + sl2[7:]
                    elif self.err and self.sk == "wb":
                        if sl[2] and v[M["b"]["resp"]] == RESP_OKAY:
                            return env, ("resp.err_dropped", "the slave terminated the write with err, the master receives OKAY"), 0
                        sl2 = sl2[:2] + (0,)
                    elif v[M["b"]["resp"]] != RESP_OKAY:
                        return env, ("resp.b_error", f"write answered with resp={v[M['b']['resp']]} by an error-free memory"), 0
                    op = wr[1]
                    if not self.p.get("read_only"):
                        ref2 = self.apply_write(ref, op[0], op[1], self.wdata(op), self.nl)
                    wr2 = ("T",)
                    self.cov["writes"] += 1
                    flags |= PROGRESS
            else:
                wr2 = ("I",)
            # values an overlapping read may see
            newvals = None
            if inflight is not None and not self.p.get("read_only"):
                newvals = (inflight[0], inflight[1], self.wdata(inflight))
            rd2 = rd
            c = ch[0][1]
            def widen(allowed, word):
                if newvals is None or newvals[0] != word:
                    return allowed
                out = []
                for l in range(self.nl):
                    s = set(allowed[l])
                    if (newvals[1] >> l) & 1:
                        s.add((newvals[2] >> (8*l)) & 0xFF)
                    out.append(tuple(sorted(s)))
                return tuple(out)
            if c[0] in ("start", "hold"):
                active = True
                word = r[0]
                allowed = rd[2] if rd[0] == "A" else tuple((ref[(word*self.nl + l) % self.nbytes],) for l in range(self.nl))
                allowed = widen(allowed, word)
                if newvals is not None and newvals[0] == word:
                    self.cov["overlap"] += 1
                rd2 = ("R", word, allowed) if ar_hs else ("A", word, allowed)
            elif c[0] == "r":
                active = True
                word, allowed = rd[1], widen(rd[2], rd[1])
                # a write committing in this very cycle is also allowed
                if not c[1]:
                    coop = False
                if r_hs:
                    rd_err = False
                    if self.err and self.sk == "axil":
                        rd_err = bool(sl2[7])
                        if rd_err and v[M["r"]["resp"]] == RESP_OKAY:
                            return env, ("resp.err_dropped", "a slave-side read of this request was answered with an error, the master receives OKAY"), 0
                        if not rd_err and v[M["r"]["resp"]] != RESP_OKAY:
                            return env, ("resp.err_invented", f"all slave-side reads of this request were answered OKAY, the master receives resp={v[M['r']['resp']]}"), 0
                        sl2 = sl2[:7] + (0,) + sl2[8:]
                    elif self.err and self.sk == "wb":
                        if sl[2] and v[M["r"]["resp"]] == RESP_OKAY:
                            return env, ("resp.err_dropped", "the slave terminated the read with err, the master receives OKAY"), 0
                        sl2 = sl2[:2] + (0,)
                    elif v[M["r"]["resp"]] != RESP_OKAY:
                        return env, ("resp.r_error", f"read answered with resp={v[M['r']['resp']]} by an error-free memory"), 0
                    got = v[M["r"]["data"]]
                    for l in range(self.nl if not ((self.err and self.sk == "wb" and sl[2]) or rd_err) else 0):
                        gb = (got >> (8*l)) & 0xFF
                        if gb not in allowed[l]:
                            return env, ("read.value", f"read word {word}: lane {l} returns {gb:#x}, allowed {[hex(x) for x in allowed[l]]}"), 0
                    rd2 = ("T",)
                    self.cov["reads"] += 1
                    flags |= PROGRESS
                else:
                    rd2 = ("R", word, allowed)
            else:
                rd2 = ("I",)
        elif self.mk == "ahb":
            c = ch[0][0]
            rd2 = ("I",)
            ready = v[M["readyout"]]
            if v[M["resp"]]:
                return env, ("resp.err", "AHB error response from an error-free memory"), 0
            if wr[0] != "D":
                if not ready:
                    return env, ("ahb.ready_idle", "HREADYOUT low although no transfer is in its data phase"), 0
                wr2 = ("D", c[1], None) if c[0] == "ahb" else ("I",)
                active = c[0] == "ahb"
            else:
                active = True
                op = wr[1]
                if ready:
                    word = op[1]//self.nl
                    if op[0]:
                        rl = list(ref)
                        for l in self.ahb_lanes(op):
                            rl[(word*self.nl + l) % self.nbytes] = lane_byte(op[3], word, l)
                        ref2 = tuple(rl)
                        self.cov["writes"] += 1
                    else:
                        got = v[M["rdata"]]
                        for l in self.ahb_lanes(op):
                            exp = ref[(word*self.nl + l) % self.nbytes]
                            if (got >> (8*l)) & 0xFF != exp:
                                return env, ("read.value", f"AHB read addr={op[1]:#x} size={op[2]}: lane {l} returns {(got >> (8*l)) & 0xFF:#x}, flat memory holds {exp:#x}"), 0
                        self.cov["reads"] += 1
                    flags |= PROGRESS
                    wr2 = ("D", c[1], None) if c[1] not in (None, "busy") else ("T",)
                    if c[1] == "busy":
                        self.cov["busy_cycles"] = self.cov.get("busy_cycles", 0) + 1
                else:
                    wr2 = ("D", op, c[1])
        else:
            op = self.wbop(env, ch)
            ack, er = v[M["ack"]], v[M["err"]]
            if op is None and (ack or er):
                return env, ("resp.ack_stray", f"ack={ack} err={er} without a request"), 0
            if er:
                return env, ("resp.err", "err from an error-free memory"), 0
            rd2 = ("I",)
            if op is None:
                wr2 = ("I",)
            else:
                active = True
                if ack:
                    if op[0] == "wbw":
                        ref2 = self.apply_write(ref, op[1], op[2], self.wdata(op[1:]), self.nl)
                        self.cov["writes"] += 1
                    else:
                        got = v[M["dat_r"]]
                        for l in range(self.nl):
                            if (op[2] >> l) & 1:
                                exp = ref[(op[1]*self.nl + l) % self.nbytes]
                                if (got >> (8*l)) & 0xFF != exp:
                                    return env, ("read.value", f"read word {op[1]} sel={op[2]:#b}: lane {l} returns {(got >> (8*l)) & 0xFF:#x}, flat memory holds {exp:#x}"), 0
                        self.cov["reads"] += 1
                    wr2 = ("T",)
                    flags |= PROGRESS
                else:
                    wr2 = ("A", op)
        # after a completed write with nothing else in flight the backing store equals the flat memory (no collateral writes)
        if self.sk and ref2 != ref and back2 != ref2 and self.kind not in ():
            quiet = (self.mk != "axil") or (rd2[0] in ("I", "T"))
            if quiet:
                return env, ("write.collateral", f"after the completed write the backing store {back2} differs from the flat memory {ref2}"), 0
        if coop and active:
            flags |= COOP
        stall2 = tuple((s[2:] if (s[0] and not s[1]) else None) for s in snap) if snap is not None else None
        return (wr2, rd2, ref2, back2, sl2, stall2), None, flags

    def cover_report(self):
        return dict(self.cov)

    def vacuity(self):
        if not self.cov["writes"] and not self.p.get("read_only") and self.wops:
            return "no completed write"
        if not self.cov["reads"]:
            return "no completed read"
        return None


REG = {}


def reg(name, tier, **kw):
    REG[name] = (tier, kw)


S16 = (0b00, 0b01, 0b10, 0b11)
S32 = (0b0000, 0b0001, 0b1000, 0b0110, 0b1111, 0b1100)
reg("AXILiteSRAM(16bit)", "quick", kind="axil_sram", mw=16, nbytes=4, strbs=S16)
reg("AXILiteSRAM(16bit)+concurrent", "quick", kind="axil_sram", mw=16, nbytes=4, strbs=(0b01, 0b11), conc=True, marks=(1,))
reg("AXILiteSRAM(32bit)", "quick", kind="axil_sram", mw=32, nbytes=8, strbs=S32, marks=(1,))
reg("AXILiteSRAM(16bit),back_to_back", "quick", kind="axil_sram", mw=16, nbytes=4, strbs=(0b01, 0b11), marks=(1,), b2b=True)
reg("AXILiteSRAM(16bit,read_only)", "quick", kind="axil_sram", mw=16, nbytes=4, strbs=(0b11,), read_only=True)
reg("AXILiteSRAM(16bit,own Memory)", "quick", kind="axil_sram", mw=16, nbytes=4, strbs=(0b01, 0b11), marks=(1,), as_memory=True)
reg("AXILiteSRAM(16bit,own Memory,bus_read_only)", "quick", kind="axil_sram", mw=16, nbytes=4, strbs=(0b11,), read_only=True, as_memory=True)
reg("AXILiteDownConverter(32->16)", "quick", kind="axil_down", mw=32, sw=16, nbytes=8, strbs=(0b0000, 0b0001, 0b1100, 0b1111), marks=(1,), w_late=False)
reg("AXILiteDownConverter(32->16),all", "thorough", kind="axil_down", mw=32, sw=16, nbytes=8, strbs=S32, marks=(1,))
reg("AXILiteDownConverter(32->8)", "quick", kind="axil_down", mw=32, sw=8, nbytes=8, strbs=(0b0000, 0b0001, 0b1000, 0b1111), marks=(1,), w_late=False)
reg("AXILiteDownConverter(32->16)+concurrent", "thorough", kind="axil_down", mw=32, sw=16, nbytes=8, strbs=(0b0011, 0b1100, 0b1111), marks=(1,), conc=True)
reg("AXILiteDownConverter(32->16),err_responses", "quick", kind="axil_down", mw=32, sw=16, nbytes=8, strbs=(0b0011, 0b1111), marks=(1,), w_late=False, err=True, words=(0,), b2b=True)
reg("AXILiteUpConverter(16->32),err_responses", "quick", kind="axil_up", mw=16, sw=32, nbytes=8, strbs=(0b11,), marks=(1,), w_late=False, err=True, words=(0, 1), b2b=True)
reg("AXILiteUpConverter(16->32)", "quick", kind="axil_up", mw=16, sw=32, nbytes=8, strbs=S16, words=(0, 1, 2), marks=(1,))
reg("AXILiteUpConverter(8->32)", "thorough", kind="axil_up", mw=8, sw=32, nbytes=8, strbs=(0, 1), words=(0, 1, 3, 4), marks=(1, 2))
reg("AXILiteUpConverter(8->32),1mark", "quick", kind="axil_up", mw=8, sw=32, nbytes=8, strbs=(0, 1), words=(0, 3, 4), marks=(1,))
reg("AXILiteConverter(32->32)", "quick", kind="axil_conv", mw=32, sw=32, nbytes=8, strbs=(0b0001, 0b1111), marks=(1,))
reg("AXILite2Wishbone(32bit)", "quick", kind="axil2wb", mw=32, nbytes=8, strbs=S32, marks=(1,))
reg("AXILite2Wishbone(16bit)+concurrent", "quick", kind="axil2wb", mw=16, nbytes=4, strbs=(0b01, 0b11), marks=(1,), conc=True)
reg("AXILite2Wishbone(32bit,base=0x20)", "quick", kind="axil2wb", mw=32, nbytes=8, strbs=(0b1111, 0b0010), marks=(1,), base=0x20)
reg("AXILite2Wishbone(16bit)+err_responses", "quick", kind="axil2wb", mw=16, nbytes=4, strbs=(0b11,), marks=(1,), err=True, w_late=False)
reg("Wishbone2AXILite(32bit)", "quick", kind="wb2axil", mw=32, nbytes=8, strbs=S32, marks=(1,))
reg("Wishbone2AXILite(32bit,base=0x20)", "quick", kind="wb2axil", mw=32, nbytes=8, strbs=(0b1111, 0b0010), marks=(1,), base=0x20)
reg("Wishbone2AXILite(64bit,base=0x10)+wide_base", "quick", kind="wb2axil", mw=64, nbytes=16, strbs=(0xFF, 0x02), marks=(1,), base=0x10)
reg("Wishbone2AXILite(64bit)", "quick", kind="wb2axil", mw=64, nbytes=16, strbs=(0xFF, 0x02, 0x80), marks=(1,))
reg("AXILite2Wishbone(64bit,base=0x10)", "quick", kind="axil2wb", mw=64, nbytes=16, strbs=(0xFF, 0x02), marks=(1,), base=0x10)
for (itf, idw, bus, bdw, direction, tier) in [
        ("wb", 32, "wb", 64, "m2s", "quick"), ("wb", 64, "wb", 32, "m2s", "quick"), ("wb", 32, "axil", 32, "m2s", "quick"),
        ("wb", 32, "axil", 64, "m2s", "quick"), ("axil", 32, "wb", 32, "m2s", "quick"), ("axil", 64, "wb", 32, "m2s", "quick"),
        ("axil", 32, "axil", 64, "m2s", "quick"), ("axil", 64, "axil", 32, "m2s", "thorough"), ("wb", 64, "axil", 32, "m2s", "thorough"),
        ("wb", 32, "wb", 64, "s2m", "quick"), ("wb", 32, "axil", 64, "s2m", "quick"), ("axil", 32, "axil", 64, "s2m", "quick"),
        ("axil", 32, "wb", 64, "s2m", "thorough"), ("axil", 64, "wb", 32, "s2m", "quick"), ("wb", 64, "axil", 32, "s2m", "quick")]:
    mwid, swid = (idw, bdw) if direction == "m2s" else (bdw, idw)
    nl_ = mwid//8
    strbs_ = (0, 1, (1 << nl_) - 1, 1 << (nl_ - 1), 0b0110) if nl_ >= 4 else tuple(range(1 << nl_))
    if nl_ == 8 and tier == "quick":
        strbs_ = (0x0F, 0xF0, 0xFF, 0x10)
    reg(f"add_adapter({itf}{idw}->{bus}{bdw} bus,{direction})", tier, kind="adapter", itf=itf, idw=idw, bus=bus, bdw=bdw, direction=direction,
        mw=mwid, sw=swid, nbytes=16, marks=(1,), strbs=strbs_, w_late=False)
# default-high response readies: bready / rready are up while the request is offered and while the master is idle
reg("AXILiteSRAM(16bit)+eager_ready", "quick", kind="axil_sram", mw=16, nbytes=4, strbs=(0b01, 0b11), marks=(1,), conc=True, eager_ready=True)
reg("AXILiteDownConverter(32->16)+eager_ready", "quick", kind="axil_down", mw=32, sw=16, nbytes=8, strbs=(0b0001, 0b1100, 0b1111), marks=(1,), w_late=False, eager_ready=True)
reg("AXILiteUpConverter(16->32)+eager_ready", "quick", kind="axil_up", mw=16, sw=32, nbytes=8, strbs=(0b01, 0b11), words=(0, 1), marks=(1,), eager_ready=True)
reg("AXILite2Wishbone(16bit)+concurrent+eager_ready", "quick", kind="axil2wb", mw=16, nbytes=4, strbs=(0b01, 0b11), marks=(1,), conc=True, eager_ready=True)
reg("AXILite2Wishbone(16bit)+err_responses+eager_ready", "quick", kind="axil2wb", mw=16, nbytes=4, strbs=(0b11,), marks=(1,), err=True, w_late=False, eager_ready=True)
reg("AXILite2CSR(32bit)+eager_ready", "quick", kind="axil2csr", mw=32, nbytes=8, strbs=(0b1111,), marks=(1, 2), eager_ready=True)
reg("add_adapter(axil32->wb32 bus,m2s)+eager_ready", "quick", kind="adapter", itf="axil", idw=32, bus="wb", bdw=32, direction="m2s", mw=32, sw=32, nbytes=16,
    marks=(1,), strbs=(0, 1, 0b1111, 0b0110), w_late=False, eager_ready=True)
reg("add_adapter(axil64->wb32 bus,m2s)+eager_ready", "quick", kind="adapter", itf="axil", idw=64, bus="wb", bdw=32, direction="m2s", mw=64, sw=32, nbytes=16,
    marks=(1,), strbs=(0x0F, 0xF0, 0xFF, 0x10), w_late=False, eager_ready=True)
reg("AHB2Wishbone(32bit)", "quick", kind="ahb2wb", mw=32, nbytes=8, marks=(1,))
reg("AHB2Wishbone(32bit)+busy_cycles", "quick", kind="ahb2wb", mw=32, nbytes=8, marks=(1,), busy=True)
reg("AHB2Wishbone(32bit)+seq_beats", "quick", kind="ahb2wb", mw=32, nbytes=8, marks=(1,), seq=True)
reg("AHB2Wishbone(32bit),2marks,lat2", "thorough", kind="ahb2wb", mw=32, nbytes=8, marks=(1, 2), maxlat=2)
reg("AHB2Wishbone(64bit)", "thorough", kind="ahb2wb", mw=64, nbytes=16, marks=(1,), words=(0, 1))
reg("AHB2Wishbone(64bit),1 word", "quick", kind="ahb2wb", mw=64, nbytes=8, marks=(1,), words=(0,))
reg("AXILite2CSR(32bit)", "quick", kind="axil2csr", mw=32, nbytes=8, strbs=(0b1111,), marks=(1, 2))
reg("AXILite2CSR(32bit,register)", "quick", kind="axil2csr", mw=32, nbytes=8, strbs=(0b1111,), marks=(1, 2), register=True)
reg("AXILite2CSR(32bit)+partial_strb", "quick", kind="axil2csr", mw=32, nbytes=8, strbs=(0b1111, 0b0001), marks=(1, 2))
reg("AXILite2CSR(32bit),no-lane writes", "quick", kind="axil2csr", mw=32, nbytes=8, strbs=(0b1111, 0b0000), marks=(1, 2))
reg("Wishbone2CSR(32bit,register=True)", "quick", kind="wb2csr", mw=32, nbytes=8, strbs=(0b1111,), marks=(1, 2), register=True)
reg("Wishbone2CSR(32bit,register=False)", "quick", kind="wb2csr", mw=32, nbytes=8, strbs=(0b1111,), marks=(1, 2), register=False)
reg("Wishbone2CSR(32bit,register=False),no-lane cycles", "quick", kind="wb2csr", mw=32, nbytes=8, strbs=(0b1111, 0b0000), marks=(1, 2), register=False)
reg("Wishbone2CSR(32bit,register=True),no-lane cycles", "quick", kind="wb2csr", mw=32, nbytes=8, strbs=(0b1111, 0b0000), marks=(1, 2), register=True)
reg("Wishbone2CSR(32bit)+partial_strb", "quick", kind="wb2csr", mw=32, nbytes=8, strbs=(0b1111, 0b0001), marks=(1, 2), register=True)


def mkh(name):
    kw = dict(REG[name][1])
    return lambda: BridgeHarness(name, **kw)


def configs(tier):
    c = [(n,) for n, (t, kw) in REG.items() if t == "quick" or tier == "thorough"]
    try:
        from checks import c09_axi_full
        c += c09_axi_full.configs(tier)
    except ImportError:
        pass
    return c


def tuple_deep(x):
    return tuple(tuple_deep(y) for y in x) if isinstance(x, (list, tuple)) else x


def run_config(cfg, seed, tier):
    if cfg[0] not in REG:
        from checks import c09_axi_full
        return c09_axi_full.run_config(cfg, seed, tier)
    f = mkh(cfg[0])
    H = f()
    res = Explorer(H, seed=seed).run()
    out = res.as_dict()
    for v in out["violations"]:
        cyc = [tuple_deep(c) for c in v["cycle"]] if v.get("cycle") else None
        q = [q for q in H.live_queries if q[0] == v["rule"]][0] if cyc else None
        rp = replay_stock(f, [tuple_deep(c) for c in v["trace"]], cyc, q)
        v["replayed"] = dict(reproduced=rp["reproduced"], path=rp["path"], cycles=rp["cycles"])
        if not rp["reproduced"]:
            raise MachineryError(f"{cfg[0]}: violation {v['rule']} does not reproduce on the stock simulator: {rp}")
    return out


def replay(rec):
    if rec["cfg"] not in REG:
        from checks import c09_axi_full
        return c09_axi_full.replay(rec)
    f = mkh(rec["cfg"])
    cyc = [tuple_deep(c) for c in rec["cycle"]] if rec.get("cycle") else None
    q = [q for q in f().live_queries if q[0] == rec["rule"]][0] if cyc else None
    rp = replay_stock(f, [tuple_deep(c) for c in rec["trace"]], cyc, q)
    return dict(cfg=rec["cfg"], rule=rec["rule"], reproduced=rp["reproduced"], err=rp["err"], path=rp["path"], cycles=rp["cycles"])


# ---------------------------------------------------------------------------------------------------
# AXILiteRemapper / AXIRemapper (what SoCBusHandler.add_master(region=...) inserts for AXI masters): purely combinational,
# every address of a small space on both address channels, every other signal of the five channels passed through
# ---------------------------------------------------------------------------------------------------
from fsmc.design import Design as _Design

AXIREMAP = {
    "AXILiteRemapper(origin=0x100,size=0x100)": dict(full=False, origin=0x100, size=0x100),
    "AXILiteRemapper(origin=0x200,size=0x40)": dict(full=False, origin=0x200, size=0x40),
    "AXILiteRemapper(origin=0,size=None)": dict(full=False, origin=0, size=None),
    "AXIRemapper(origin=0x300,size=0x80)": dict(full=True, origin=0x300, size=0x80),
    "AXIRemapper(origin=0x80,size=0x80)": dict(full=True, origin=0x80, size=0x80),
}


def run_axi_remapper(name):
    kw = AXIREMAP[name]
    aw = 10
    class W(Module):
        def __init__(self):
            mk = (lambda: axi_full.AXIInterface(data_width=32, address_width=aw, id_width=2)) if kw["full"] else \
                 (lambda: axi_lite.AXILiteInterface(data_width=32, address_width=aw))
            self.m, self.s = mk(), mk()
            cls = axi_full.AXIRemapper if kw["full"] else axi_lite.AXILiteRemapper
            self.submodules.r = cls(self.m, self.s, origin=kw["origin"], size=kw["size"])
    w = W()
    D = _Design(w)
    size = kw["size"] if kw["size"] is not None else 1 << aw
    n = 0
    first = None
    I = {ch: (D.i(getattr(w.m, ch).addr), D.i(getattr(w.s, ch).addr)) for ch in ("aw", "ar")}
    # pass-through of the handshake lines (both directions) with an address present
    hs = [(D.i(getattr(w.m, ch).valid), D.i(getattr(w.s, ch).valid)) for ch in ("aw", "w", "ar")] + \
         [(D.i(getattr(w.s, ch).valid), D.i(getattr(w.m, ch).valid)) for ch in ("b", "r")] + \
         [(D.i(getattr(w.s, ch).ready), D.i(getattr(w.m, ch).ready)) for ch in ("aw", "w", "ar")] + \
         [(D.i(getattr(w.m, ch).ready), D.i(getattr(w.s, ch).ready)) for ch in ("b", "r")]
    for adr in range(1 << aw):
        for other in (0, (1 << aw) - 1):
            for pat in (0, 1):
                v = D.load(())
                v[I["aw"][0]], v[I["ar"][0]] = adr, other
                for k, (src, dst) in enumerate(hs):
                    v[src] = (k + pat) & 1
                D.fs.settle()
                n += 1
                if n % 97 == 0:
                    D.conform((), list(v), list(v), ())
                exp = (kw["origin"] + (adr % size)) & ((1 << aw) - 1)
                expo = (kw["origin"] + (other % size)) & ((1 << aw) - 1)
                if first is None and (v[I["aw"][1]], v[I["ar"][1]]) != (exp, expo):
                    first = dict(rule="remap.address", msg=f"master aw/ar addr {adr:#x}/{other:#x} -> slave {v[I['aw'][1]]:#x}/{v[I['ar'][1]]:#x}, origin + offset gives {exp:#x}/{expo:#x}",
                                 detail=dict(adr=adr, other=other))
                if first is None:
                    for k, (src, dst) in enumerate(hs):
                        if v[dst] != v[src]:
                            first = dict(rule="remap.passthrough", msg=f"handshake line {k} not passed through ({v[src]} -> {v[dst]})", detail=dict(adr=adr, line=k))
                            break
    return dict(cfg=name, states=n, transitions=n, conformed=n//97, exhaustive=True, violations=[first] if first else [],
                sample=[dict(master_aw_addr=5, origin=kw["origin"], size=kw["size"])])


_cfg9, _run9, _replay9 = configs, run_config, replay


# the burst walker inside AXI2AXILite / AXI2Wishbone: the bridge configurations use buses up to 64 bit and short bursts, the walker's own INCR
# enumeration (C10's harness: every legal burst of that size, incl. 4 KiB bursts on buses of 128 bit and more) runs here too
WALKER = ("AXIBurst2Beat[INCR,size=2,bus=32/64bit]", "AXIBurst2Beat[INCR,size=4,bus=128bit]")


def configs(tier):
    return _cfg9(tier) + [(n,) for n in AXIREMAP] + [(n,) for n in WALKER]


def run_config(cfg, seed, tier):
    if cfg[0] in AXIREMAP:
        return run_axi_remapper(cfg[0])
    if cfg[0] in WALKER:
        from checks import c10_axi_burst
        return c10_axi_burst.run_config(cfg, seed, tier)
    return _run9(cfg, seed, tier)


def replay(rec):
    if rec["cfg"] in AXIREMAP:
        r = run_axi_remapper(rec["cfg"])
        return dict(cfg=rec["cfg"], rule=rec["rule"], reproduced=bool(r["violations"]))
    if rec["cfg"] in WALKER:
        from checks import c10_axi_burst
        return c10_axi_burst.replay(rec)
    return _replay9(rec)
