"""C13 helpers: guarded execution of one API call (deterministic work budget + SIGALRM backstop), canonical-state
digests and the breadth-first enumerator of call histories (engine E3 "seqx" of DESIGN.md, specialised to C13).

A *model* (bus handler / loc handler / constraint manager) provides
    key                      str, mixed into every state digest (so that states of different handlers never alias)
    fresh()                  -> ctx   a brand-new real LiteX object wrapped with the harness-side bookkeeping
    info(ctx)                -> small tuple: what the call menu depends on (how many names exist, ...)
    menu(info)               -> list of call tuples applicable in such a state
    step(ctx, call, idx)     -> (outcome, ret): executes ONE real API call under `guarded`
    canon(ctx)               -> hashable canonical projection of the object's observable state
    check_call(ctx, call, idx, ret, before)  -> [violation dict]   (after a successful call)
    check_reject(ctx, call, idx, before, after) -> [violation dict] (after a rejected call)
    check_state(ctx)         -> [violation dict]   (once per NEW canonical state; e.g. finalisation + decoders)
    jcall(call)              -> JSON-able, human-readable rendering of a call
"""
import fsmc  # noqa: F401  (first: puts the repo under test on sys.path, installs the tracer shim)
import sys, signal, hashlib, logging, collections

_STDERR = sys.stderr if sys.stderr is not None else sys.__stderr__

WALL_BACKSTOP_S = 5.0     # SIGALRM backstop per call (only ever reached by a genuinely non-terminating call)
WORK_BUDGET     = dict(quick=300, thorough=1100)   # SoCRegion constructions allowed inside ONE API call (alloc_region
#                   builds one per candidate origin).  Measured: a 512-step walk (4-byte region behind a 2 KiB one) costs 1.3 ms
#                   and is replayed in every extension of its history; 300 halves the cost of the heaviest configurations.


class MachineryError(Exception):
    pass


class CallTimeout(BaseException):
    """Raised by the SIGALRM handler inside a guarded call."""


class CallBudget(BaseException):
    """Raised by the instrumented SoCRegion.__init__ when one API call constructs more than WORK_BUDGET regions."""


class _Budget:
    count = 0
    limit = WORK_BUDGET["thorough"]
    armed = False


def set_budget(tier):
    _Budget.limit = WORK_BUDGET.get(tier, WORK_BUDGET["thorough"])


def _on_alarm(signum, frame):
    if _Budget.armed:
        raise CallTimeout()


class Instrumentation:
    """Context manager: silences logging, installs the SIGALRM handler and the deterministic work counter on
    SoCRegion.__init__ (wall-clock independent replacement for "the call did not return": DESIGN E3 / candidate z)."""

    def __enter__(self):
        from litex.soc.integration import soc
        self.soc = soc
        self.prev_disable = logging.root.manager.disable
        logging.disable(logging.CRITICAL)
        self.prev_handler = signal.signal(signal.SIGALRM, _on_alarm)
        self.orig_init = soc.SoCRegion.__init__
        orig = self.orig_init

        def counting_init(self_, *a, **k):
            _Budget.count += 1
            if _Budget.armed and _Budget.count > _Budget.limit:
                raise CallBudget()
            orig(self_, *a, **k)
        soc.SoCRegion.__init__ = counting_init
        return self

    def __exit__(self, *exc):
        signal.setitimer(signal.ITIMER_REAL, 0)
        self.soc.SoCRegion.__init__ = self.orig_init
        signal.signal(signal.SIGALRM, self.prev_handler)
        logging.disable(self.prev_disable)
        sys.stderr = _STDERR
        return False


def guarded(fn, *args):
    """Run one API call.  -> (outcome, value) with outcome in ok / rejected / budget / timeout.
    Any exception type counts as "rejected with an error" (DESIGN 4b)."""
    _Budget.count = 0
    _Budget.armed = True
    signal.setitimer(signal.ITIMER_REAL, WALL_BACKSTOP_S)
    try:
        try:
            v = fn(*args)
            return "ok", v
        finally:
            _Budget.armed = False
            signal.setitimer(signal.ITIMER_REAL, 0)
            if sys.stderr is None:
                sys.stderr = _STDERR          # SoCError.__init__ sets sys.stderr = None
    except CallBudget:
        return "budget", None
    except CallTimeout:
        return "timeout", None
    except Exception as e:                     # noqa: BLE001 - every error is a rejection
        return "rejected", type(e).__name__


def reset_migen_tracer():
    """migen.fhdl.tracer keeps every object ever seen as `self` on a Signal's creation stack in a global list that it
    searches linearly: with one fresh handler per history that is quadratic (measured 1.5 ms per call after 7000
    histories) and keeps all handlers alive.  The list only feeds the default *names* of signals."""
    from migen.fhdl import tracer
    tracer.classname_to_objs.clear()
    tracer.name_to_idx.clear()


def digest(key, canon):
    return hashlib.blake2b(repr((key, canon)).encode(), digest_size=8).digest()


def tuple_deep(x):
    if isinstance(x, (list, tuple)):
        return tuple(tuple_deep(y) for y in x)
    return x


def hx(v):
    return None if v is None else (hex(v) if isinstance(v, int) and not isinstance(v, bool) else v)


class Exploration:
    def __init__(self):
        self.evaluations = 0
        self.calls_executed = 0
        self.seen = set()
        self.outcomes = collections.Counter()
        self.cover = collections.Counter()
        self.violations = {}          # rule -> record (shortest history wins, then smallest rendering)
        self.sample = None
        self.notes = {}               # outcome -> first example (budget / timeout / residue)
        self.cap_hit = False
        self.depth_states = []

    def add_violation(self, model, v, hist):
        rec = dict(rule=v["rule"], msg=v["msg"], trace=[model.jcall(c) for c in hist],
                   detail=dict(v.get("detail", {}), model=model.params(), history=[list_deep(c) for c in hist]))
        old = self.violations.get(v["rule"])
        if old is None or (len(rec["trace"]), repr(rec["trace"])) < (len(old["trace"]), repr(old["trace"])):
            self.violations[v["rule"]] = rec


def list_deep(x):
    if isinstance(x, (list, tuple)):
        return [list_deep(y) for y in x]
    return x


def rebuild(model, hist):
    """Re-execute a history of calls (all known to succeed) on a fresh real object."""
    ctx = model.fresh()
    for i, c in enumerate(hist):
        out, _ = model.step(ctx, c, i)
        if out != "ok":
            raise MachineryError(f"{model.key}: non-deterministic replay: call {i} {model.jcall(c)} of {[model.jcall(x) for x in hist]} gave {out}")
    return ctx


def clean_run(model, hist):
    """Executes `hist` on a fresh object; -> canonical end state if every call succeeds and no call / intermediate state
    violates anything (i.e. the history is one the enumerator would explore and extend), else None."""
    saved = model.cover.copy()
    try:
        ctx = model.fresh()
        for i, c in enumerate(hist):
            before = model.canon(ctx)
            out, ret = model.step(ctx, c, i)
            if out != "ok" or model.check_call(ctx, c, i, ret, before) or model.check_state(ctx):
                return None
        return model.canon(ctx)
    finally:
        model.cover.clear()
        model.cover.update(saved)


def reproduces_cleanly(model, hist, rule, memo):
    """True iff all calls of `hist` but the last execute cleanly (no violation) and the last one shows `rule`."""
    k = (hist, rule)
    if k in memo:
        return memo[k]
    saved = model.cover.copy()
    res = False
    try:
        ctx = model.fresh()
        ok = True
        for i, c in enumerate(hist[:-1]):
            before = model.canon(ctx)
            out, ret = model.step(ctx, c, i)
            if out != "ok" or model.check_call(ctx, c, i, ret, before) or model.check_state(ctx):
                ok = False
                break
        if ok:
            i, c = len(hist) - 1, hist[-1]
            before = model.canon(ctx)
            try:
                out, ret = model.step(ctx, c, i)
            except (IndexError, KeyError):          # a positional call (name of entry k) that lost its target
                out = None
            if out == "ok":
                v = model.check_call(ctx, c, i, ret, before) + model.check_state(ctx)
            elif out == "rejected":
                v = model.check_reject(ctx, c, i, before, model.canon(ctx))
            else:
                v = []
            res = any(x["rule"] == rule for x in v)
    except (IndexError, KeyError):
        res = False
    finally:
        model.cover.clear()
        model.cover.update(saved)
    if len(memo) < 200000:
        memo[k] = res
    return res


def is_minimal(model, hist, rule, memo):
    """A violating history is reported only if dropping any one of its earlier calls loses the violation (the shorter
    history is itself enumerated and reported by the configuration that owns its first call)."""
    for i in range(len(hist) - 1):
        if reproduces_cleanly(model, hist[:i] + hist[i + 1:], rule, memo):
            return False
    return True


def owned_by_earlier_configuration(model, hist, canon, root_index, lo):
    """Verified-commutation reduction between the configurations that split the space by first call: the state reached
    by `hist` is left to an earlier configuration (first call with index < lo) iff moving one later call of `hist` to
    the front gives a history that REALLY executes cleanly to the same canonical state.  Sound under the assumption BFS
    de-duplication already makes (the canonical state determines the future): the configuration holding the smallest
    first call from which the state is reachable never finds such a permutation for the state or any of its ancestors,
    so it reaches and expands it."""
    for j in range(1, len(hist)):
        idx = root_index.get(hist[j])
        if idx is None or idx >= lo:
            continue
        if clean_run(model, (hist[j],) + hist[:j] + hist[j + 1:]) == canon:
            return True
    return False


def explore(model, depth, seed=0, roots=None, max_evals=None, owner=None):
    """Breadth-first over call histories of length <= depth; histories are de-duplicated by the canonical state they
    lead to; every history is re-executed from scratch on a fresh object.  `roots` restricts the FIRST call (that is how
    the space is split over the process pool); owner = (all root calls, index of this configuration's first root)
    enables the reduction of owned_by_earlier_configuration for states that would be extended."""
    X = Exploration()
    root_index = {c: i for i, c in enumerate(owner[0])} if owner else None
    memo = {}

    def report(viol, hist):
        for v in viol:
            X.cover["violating_histories"] += 1
            if is_minimal(model, hist, v["rule"], memo):
                X.add_violation(model, v, hist)
    ctx0 = model.fresh()
    c0 = model.canon(ctx0)
    X.seen.add(digest(model.key, c0))
    for v in model.check_state(ctx0):
        X.add_violation(model, v, ())
    frontier = [((), model.info(ctx0))]
    for d in range(depth):
        nxt = []
        for hist, info in frontier:
            menu = list(model.menu(info)) if (d > 0 or roots is None) else list(roots)
            if seed and menu:
                k = seed % len(menu)
                menu = menu[k:] + menu[:k]
            for call in menu:
                if max_evals is not None and X.evaluations >= max_evals:
                    X.cap_hit = True
                    break
                ctx = rebuild(model, hist)
                X.calls_executed += len(hist) + 1
                before = model.canon(ctx)
                out, ret = model.step(ctx, call, len(hist))
                X.evaluations += 1
                X.outcomes[out] += 1
                h2 = hist + (call,)
                if out == "ok":
                    viol = model.check_call(ctx, call, len(hist), ret, before)
                    after = model.canon(ctx)
                    dg = digest(model.key, after)
                    new = dg not in X.seen
                    if new:
                        X.seen.add(dg)
                        viol = viol + model.check_state(ctx)
                    report(viol, h2)
                    if new and not viol:          # a violating history is reported, not extended
                        if owner and d + 1 < depth and owned_by_earlier_configuration(model, h2, after, root_index, owner[1]):
                            X.cover["states_left_to_an_earlier_configuration"] += 1
                            continue
                        nxt.append((h2, model.info(ctx)))
                        if X.sample is None or len(h2) > len(X.sample["history"]):
                            X.sample = dict(history=[model.jcall(c) for c in h2], state=model.jstate(ctx))
                elif out == "rejected":
                    after = model.canon(ctx)
                    if after != before:
                        X.cover["rejections_leaving_residue"] += 1
                        X.notes.setdefault("residue", dict(history=[model.jcall(c) for c in h2]))
                    report(model.check_reject(ctx, call, len(hist), before, after), h2)
                else:
                    X.notes.setdefault(out, dict(history=[model.jcall(c) for c in h2]))
            if X.cap_hit:
                break
        X.depth_states.append(len(nxt))
        frontier = nxt
        if X.cap_hit or not frontier:
            break
    for k, v in model.cover.items():
        X.cover[k] += v
    return X


def result_dict(name, X, extra_cover=None):
    cover = dict(X.cover)
    cover.update({"outcome_" + k: v for k, v in X.outcomes.items()})
    cover["calls_executed_incl_replays"] = X.calls_executed
    cover["new_states_per_depth"] = list(X.depth_states)
    if extra_cover:
        cover.update(extra_cover)
    r = dict(cfg=name, exhaustive=not X.cap_hit, violations=list(X.violations.values()),
             evaluations=X.evaluations, distinct=len(X.seen), sample=X.sample, cover=cover,
             digests=b"".join(sorted(X.seen)))
    if X.notes:
        r["notes"] = X.notes
    if X.cap_hit:
        r["cap_hit"] = True
    return r
