"""C07 — Wishbone adapters and memories are transparent to the master (DESIGN.md §4 C07).
One Moore master (idle | read/write(adr, sel, data marks) held until ack | back-to-back), the adapter under test, and
behind it either an environment memory slave (reactive, latency 0..L, contents in the environment state) or the real
wishbone.SRAM.  Oracle: flat byte memory."""
import itertools
import fsmc  # noqa
from migen import *
from litex.soc.interconnect import wishbone, csr_bus
from fsmc.explore import Explorer, replay_stock, Harness, COOP, PROGRESS
from fsmc.design import MachineryError

PROPERTY = "C07"
LEVEL = "model_checking"
RULE = ("BFS to closure (cache: to a bounded operation depth, reported) of (real adapter FHDL [+ real SRAM] x master x memory slave x flat "
        "byte-memory reference) under every master operation (address menu x every/selected sel pattern x read/write x 2 data marks, gaps, "
        "back-to-back) and every slave latency")
ASSUMPTIONS = [
    "2-state zero-delay FHDL semantics of litex.gen.sim",
    "on reads only bytes selected by sel are compared (DESIGN 4b)",
    "addresses: 2-4 master words chosen to collide in one cache set / span two converter words; data = per-lane marks",
    "base runs of the cache use zero-initialised backing memory; '+nonzero_backing' explores the excluded behaviour",
    "bursts on wishbone.SRAM: classic / constant / incrementing (linear, wrap 4) without wait states inside a burst",
]


def lane_byte(mark, adr, lane):
    return (mark << 5) | ((adr & 3) << 3) | (lane + 1)


class MemDUT(Module):
    def __init__(self, kind, mw, sw, p):
        adrw = 4
        self.master = wishbone.Interface(data_width=mw, adr_width=adrw, bursting=p.get("bursting", False))
        self.slave = None
        self.sram = None
        if kind in ("down", "up", "conv", "cache"):
            sadr = adrw + (log2_int(mw//sw) if mw > sw else -log2_int(sw//mw))
            self.slave = s = wishbone.Interface(data_width=sw, adr_width=sadr, bursting=p.get("bursting", False))
            if kind == "down":
                self.submodules.dut = wishbone.DownConverter(self.master, s)
            elif kind == "up":
                self.submodules.dut = wishbone.UpConverter(self.master, s)
            elif kind == "conv":
                self.submodules.dut = wishbone.Converter(self.master, s)
            else:
                self.submodules.dut = wishbone.Cache(p["cachesize"], self.master, s, reverse=p.get("reverse", True))
            if p.get("backing") == "sram":
                nbytes = p["nbytes"]
                init = None
                if p.get("nonzero"):
                    init = [sum(((0xE0 | (w*(sw//8) + b)) & 0xFF) << (8*b) for b in range(sw//8)) for w in range(nbytes//(sw//8))]
                self.submodules.sram = wishbone.SRAM(nbytes, bus=s, init=init)
                self.slave = None
        elif kind == "sram" and p.get("as_memory"):
            # the caller hands over its own Memory (optionally tagged `bus_read_only`) instead of a size
            ro = p.get("read_only")
            mem = Memory(mw, p["nbytes"]//(mw//8), init=[0x5A5A5A5A & ((1 << mw) - 1)]*(p["nbytes"]//(mw//8)) if ro else None)
            if ro:
                mem.bus_read_only = True
            self.specials += mem
            self.submodules.dut = wishbone.SRAM(mem, bus=self.master)
        elif kind == "sram":
            self.submodules.dut = wishbone.SRAM(p["nbytes"], bus=self.master, read_only=p.get("read_only"),
                                                init=[0x5A5A5A5A & ((1 << mw) - 1)]*(p["nbytes"]//(mw//8)) if p.get("read_only") else None)
        elif kind == "csr":
            self.csr = csr_bus.Interface(data_width=mw, address_width=6)
            self.submodules.dut = wishbone.Wishbone2CSR(self.master, self.csr, register=p["register"])
        else:
            raise ValueError(kind)


class WbMemHarness(Harness):
    """env = (phase, op, ref bytes, backing bytes, slave (lat, last request), csr regs)"""

    def __init__(self, name, kind, mw, sw=None, adrs=(0, 1), sels=None, maxlat=1, depth=None, cap=None, marks=(1, 2), **p):
        self.name, self.kind, self.mw, self.sw, self.adrs, self.maxlat, self.p = name, kind, mw, sw or mw, list(adrs), maxlat, p
        self.nl = mw//8
        self.sels = list(sels) if sels is not None else list(range(1 << self.nl))
        self.depth = depth
        self.marks = marks
        self.sweep = [("r", a, (1 << self.nl) - 1, 0) for a in list(adrs) + [list(adrs)[0]]] if (depth is not None and p.pop("sweep", True)) else None
        self.nbytes = p.get("nbytes", 16)
        if cap:
            self.cap = cap
        self.live_queries = (("live.deadlock", COOP, PROGRESS, (), "master requests, backing slave answers, the cycle never completes"),)
        self.cov = dict(acks=0, maxwait=0, evictions=0, slave_writes=0)

    def build(self):
        self.dut = MemDUT(self.kind, self.mw, self.sw, self.p)
        return self.dut

    def bind(self, D):
        d = self.dut
        f = lambda itf, names: {n: D.i(getattr(itf, n)) for n in names}
        self.Mi = f(d.master, ("cyc", "stb", "we", "adr", "dat_w", "sel", "cti", "bte", "ack", "err", "dat_r"))
        self.Si = f(d.slave, ("cyc", "stb", "we", "adr", "dat_w", "sel", "ack", "err", "dat_r")) if d.slave is not None else None
        self.Ci = f(d.csr, ("adr", "we", "re", "dat_w", "dat_r")) if self.kind == "csr" else None
        ops = []
        for a in self.adrs:
            for s in self.sels:
                ops.append(("r", a, s, 0))
                for mk in self.marks:
                    ops.append(("w", a, s, mk))
        for (we, a, kind, n) in self.p.get("bursts", ()):
            for mk in (self.marks if we else (0,)):
                ops.append(("bw" if we else "br", a, (1 << self.nl) - 1, mk, kind, n))
        self.ops = ops
        top = max([a for a in self.adrs] + [self.beat_adr((None, a, 0, 0, kind, n), n - 1) for (we, a, kind, n) in self.p.get("bursts", ())])
        if top >= (1 << len(d.master.adr)) or (top + 1) * self.nl > self.nbytes:
            raise MachineryError(f"{self.name}: address {top} of the menu lies outside the {len(d.master.adr)}-bit / {self.nbytes}-byte space of this configuration")

    def init_byte(self, a):
        if self.kind == "sram":
            return 0x5A if self.p.get("read_only") else 0
        if self.p.get("backing") == "sram":
            return (0xE0 | a) & 0xFF if self.p.get("nonzero") else 0
        if self.kind == "csr":
            return 0
        return (0xE0 | a) & 0xFF

    def env_init(self):
        mem = tuple(self.init_byte(a) for a in range(self.nbytes))
        return ("I", None, mem, mem if self.Si is not None else (), (0, None), 0, 0)

    def choices(self, env):
        ph, op, ref, back, (lat, lastreq), nops, csrdatr = env
        if ph == "R":
            mch = [("hold",)]
            bop, bi = op
            if self.p.get("burst_wait_states") and len(bop) == 6 and bi >= 1:
                mch.append(("wait",))          # stb low, cyc high inside a burst (at most one cycle in a row)
        elif ph == "W":
            mch = [("hold",)]
        else:
            mch = [("idle",)]
            if self.depth is None or nops < self.depth:
                mch += self.ops
            elif self.sweep and nops < self.depth + len(self.sweep):
                # read-back epilogue of a depth-bounded history: every address of the menu once more (the menu collides in one
                # cache set, so each read evicts its predecessor) and the first one again - corruption left behind in a line
                # or in the backing store by the history is read back although the history itself has used up its depth
                mch = [self.sweep[nops - self.depth]]
        sch = ["a"]
        if self.Si is not None:
            sch = (["a"] if True else []) + (["w"] if lat < self.maxlat else [])
        return [(m, s) for m in mch for s in sch]

    def cur_op(self, env, ch):
        """the beat presented in this cycle (6-tuple) or None"""
        if ch[0][0] == "wait":
            return None
        if ch[0][0] == "hold":
            op, i = env[1]
            return self.beat(op, i)
        if ch[0][0] == "idle":
            return None
        return self.beat(ch[0], 0)

    def cur_burst(self, env, ch):
        if ch[0][0] in ("hold", "wait"):
            return env[1]
        if ch[0][0] == "idle":
            return None
        return (ch[0], 0)

    def data_of(self, op):
        return sum(lane_byte(op[3], op[1], l) << (8*l) for l in range(self.nl))

    @staticmethod
    def beat_adr(op, i):
        a, kind = op[1], op[4]
        if kind == "const":
            return a
        if kind == "lin":
            return a + i
        n = {"wrap4": 4, "wrap8": 8}[kind]
        return (a & ~(n - 1)) | ((a + i) & (n - 1))

    def beat(self, op, i):
        """classic operation = one beat; burst beat i -> (type, adr, sel, mark, cti, bte)"""
        if len(op) == 4:
            return (op[0], op[1], op[2], op[3], 0, 0)
        last = i == op[5] - 1
        cti = 0b111 if last else (0b001 if op[4] == "const" else 0b010)
        bte = {"const": 0, "lin": 0, "wrap4": 1, "wrap8": 2}[op[4]]
        # every beat carries its own data mark so that beats are distinguishable: mark alternates with the beat index
        return ("w" if op[0] == "bw" else "r", self.beat_adr(op, i), op[2], (op[3] + i - 1) % 2 + 1 if op[3] else 0, cti, bte)

    def drive(self, v, env, ch):
        M = self.Mi
        op = self.cur_op(env, ch)
        if ch[0][0] == "wait":
            bop, bi = env[1]
            nb = self.beat(bop, bi)
            v[M["cyc"]], v[M["stb"]] = 1, 0
            v[M["adr"]], v[M["we"]], v[M["sel"]], v[M["dat_w"]] = nb[1], int(nb[0] == "w"), nb[2], (1 << self.mw) - 1
            v[M["cti"]], v[M["bte"]] = nb[4], nb[5]
        elif op is None:
            v[M["cyc"]] = v[M["stb"]] = 0
            v[M["adr"]], v[M["we"]], v[M["sel"]], v[M["dat_w"]] = 0xF, 1, (1 << self.nl) - 1, (1 << self.mw) - 1
        else:
            v[M["cyc"]] = v[M["stb"]] = 1
            v[M["adr"]], v[M["we"]], v[M["sel"]] = op[1], int(op[0] == "w"), op[2]
            v[M["dat_w"]] = self.data_of(op) if op[0] == "w" else 0
        if ch[0][0] != "wait":
            v[M["cti"]], v[M["bte"]] = (op[4], op[5]) if op is not None else (0, 0)
        if self.Si is not None:
            S = self.Si
            v[S["ack"]] = v[S["err"]] = 0
            v[S["dat_r"]] = (1 << self.sw) - 1
        if self.Ci is not None:
            v[self.Ci["dat_r"]] = env[6]

    def react(self, v, env, ch):
        if self.Si is None:
            return False
        S = self.Si
        vis = v[S["cyc"]] and v[S["stb"]]
        a = 1 if (vis and ch[1] == "a") else 0
        dr = (1 << self.sw) - 1
        if a and not v[S["we"]]:
            nb = self.sw//8
            base = v[S["adr"]]*nb
            back = env[3]
            dr = sum(back[(base + b) % self.nbytes] << (8*b) for b in range(nb))
        if (v[S["ack"]], v[S["dat_r"]]) != (a, dr):
            v[S["ack"]], v[S["dat_r"]] = a, dr
            return True
        return False

    def observe(self, v, env, ch):
        ph, op0, ref, back, (lat, lastreq), nops, csrdatr = env
        M = self.Mi
        op = self.cur_op(env, ch)
        flags = 0
        ack, er = v[M["ack"]], v[M["err"]]
        if ch[0][0] == "wait":
            ack = 0        # a registered-feedback slave cannot know that the master negates stb: ack is only qualified by stb
        if op is None and (ack or er):
            return env, ("ack.stray", f"ack={ack} err={er} without a request"), 0
        if er:
            return env, ("ack.err", "err asserted by an adapter in front of an error-free memory"), 0
        # slave side: protocol + memory effect
        back2, lat2, last2 = back, 0, None
        coop = op is not None
        if self.Si is not None:
            S = self.Si
            vis = v[S["cyc"]] and v[S["stb"]]
            if vis:
                req = (v[S["adr"]], v[S["we"]], v[S["sel"]], v[S["dat_w"]] if v[S["we"]] else 0)
                if lastreq is not None and req != lastreq:
                    return env, ("proto.unstable", f"slave-side request changed while waiting for ack: {lastreq} -> {req}"), 0
                if op is None:
                    return env, ("proto.spurious", f"slave-side request {req} while the master is idle"), 0
                if ch[1] == "a":
                    if req[1]:
                        nb = self.sw//8
                        base = req[0]*nb
                        bl = list(back)
                        for b in range(nb):
                            if (req[2] >> b) & 1:
                                bl[(base + b) % self.nbytes] = (req[3] >> (8*b)) & 0xFF
                        back2 = tuple(bl)
                        self.cov["slave_writes"] += 1
                else:
                    lat2, last2 = lat + 1, req
                    coop = False
        csrdatr2 = 0
        if self.Ci is not None:
            C = self.Ci
            # register file model behind the CSR bus: word per address, reads answer one cycle later
            if v[C["we"]]:
                a = v[C["adr"]]
                bl = list(ref if False else back) if back else None
            csrdatr2 = 0
        # master side
        ref2 = ref
        if ack:
            self.cov["acks"] += 1
            nb = self.nl
            base = op[1]*nb
            if op[0] == "r":
                got = v[M["dat_r"]]
                for l in range(nb):
                    if (op[2] >> l) & 1:
                        exp = ref[(base + l) % self.nbytes]
                        if (got >> (8*l)) & 0xFF != exp:
                            return env, ("read.value", f"read adr={op[1]} sel={op[2]:#b}: lane {l} returns {(got >> (8*l)) & 0xFF:#x}, flat memory holds {exp:#x}"), 0
            else:
                if not self.p.get("read_only"):
                    rl = list(ref)
                    for l in range(nb):
                        if (op[2] >> l) & 1:
                            rl[(base + l) % self.nbytes] = lane_byte(op[3], op[1], l)
                    ref2 = tuple(rl)
                    if base >= self.nbytes:
                        raise MachineryError("burst leaves the memory: fix the configuration")
            flags |= PROGRESS
            # converters do not cache: once the master cycle is acknowledged the backing store equals the flat memory
            if self.kind in ("down", "up", "conv") and self.Si is not None and back2 != ref2:
                return env, ("write.collateral", f"after the acknowledged cycle the backing store {back2} differs from the flat memory {ref2}"), 0
            bop, bi = self.cur_burst(env, ch)
            if len(bop) == 6 and bi + 1 < bop[5]:
                nxt = ("R", (bop, bi + 1))          # next beat of the burst, no wait state
            else:
                nxt = ("T", None)
        elif op is not None:
            nxt = ("R", self.cur_burst(env, ch))
        elif ch[0][0] == "wait":
            nxt = ("W", env[1])             # next cycle the beat must be presented again
        else:
            nxt = ("I", None)
        if coop:
            flags |= COOP
        nops2 = 0 if self.depth is None else nops + (1 if (ch[0][0] not in ("hold", "idle")) else 0)
        return (nxt[0], nxt[1], ref2, back2, (lat2, last2), nops2, csrdatr2), None, flags

    def cover_report(self):
        return dict(self.cov)

    def vacuity(self):
        return None if self.cov["acks"] else "no acknowledged cycle"


REG = {}


def reg(name, tier, **kw):
    REG[name] = (tier, kw)


SEL32 = (0b0000, 0b0001, 0b1000, 0b0110, 0b1111, 0b0011, 0b1100)
reg("DownConverter(16->8)", "quick", kind="down", mw=16, sw=8, adrs=(0, 1), nbytes=4)
reg("DownConverter(32->8)", "quick", kind="down", mw=32, sw=8, adrs=(0, 1), sels=SEL32, nbytes=8, marks=(1,))
reg("DownConverter(32->16)", "quick", kind="down", mw=32, sw=16, adrs=(0, 1), sels=SEL32, nbytes=8, marks=(1,))
# bursts through the converter into the real burst-capable SRAM (cti/bte translation): linear, constant and wrapping bursts that start
# inside their wrap window
reg("DownConverter(16->8)+SRAM(bursting)", "quick", kind="down", mw=16, sw=8, adrs=(0, 1), nbytes=32, bursting=True, backing="sram", marks=(1,),
    bursts=tuple((we, a, kind, n) for we in (0, 1) for (a, kind, n) in ((0, "lin", 3), (1, "wrap4", 4), (2, "wrap4", 3), (2, "const", 2))))
reg("DownConverter(32->8),2marks", "thorough", kind="down", mw=32, sw=8, adrs=(0,), sels=SEL32, nbytes=4)
reg("DownConverter(16->8),lat2", "thorough", kind="down", mw=16, sw=8, adrs=(0, 1, 2), nbytes=8, maxlat=2, marks=(1,))
reg("DownConverter(64->8)", "thorough", kind="down", mw=64, sw=8, adrs=(0,), sels=(0, 1, 0x80, 0xFF, 0x18, 0xF0), nbytes=8, marks=(1,))
reg("UpConverter(8->16)", "quick", kind="up", mw=8, sw=16, adrs=(0, 1, 2, 3), nbytes=4)
reg("UpConverter(8->32)", "quick", kind="up", mw=8, sw=32, adrs=(0, 3, 4, 5), nbytes=8)
reg("UpConverter(16->32)", "quick", kind="up", mw=16, sw=32, adrs=(0, 1, 2), nbytes=8, marks=(1,))
reg("Converter(16->8)", "quick", kind="conv", mw=16, sw=8, adrs=(0, 1), nbytes=4)
reg("Converter(8->16)", "quick", kind="conv", mw=8, sw=16, adrs=(0, 1, 2), nbytes=4)
reg("Converter(8->8)", "quick", kind="conv", mw=8, sw=8, adrs=(0, 1), nbytes=2)
# the whole 4-bit master address space, words in the upper half: the top slave address bit comes from the top master address bit
reg("DownConverter(16->8),top address bit", "quick", kind="down", mw=16, sw=8, adrs=(1, 8, 15), nbytes=32, marks=(1,))
reg("DownConverter(32->8),top address bit", "quick", kind="down", mw=32, sw=8, adrs=(7, 8), sels=(0b0001, 0b1111, 0b0110), nbytes=64, marks=(1,))
reg("DownConverter(32->16),top address bit", "quick", kind="down", mw=32, sw=16, adrs=(4, 15), sels=(0b0011, 0b1111, 0b1000), nbytes=64, marks=(1,))
reg("Converter(16->8),top address bit", "quick", kind="conv", mw=16, sw=8, adrs=(7, 8), nbytes=32, marks=(1,))
reg("UpConverter(8->16),top address bit", "quick", kind="up", mw=8, sw=16, adrs=(7, 8, 15), nbytes=16, marks=(1,))
reg("UpConverter(8->32),top address bit", "quick", kind="up", mw=8, sw=32, adrs=(3, 12, 15), nbytes=16, marks=(1,))
reg("SRAM(16bit,rw)", "quick", kind="sram", mw=16, adrs=(0, 1), nbytes=4)
reg("SRAM(32bit,rw)", "quick", kind="sram", mw=32, adrs=(0, 1), sels=SEL32, nbytes=8, marks=(1,))
reg("SRAM(16bit,read_only)", "quick", kind="sram", mw=16, adrs=(0, 1), nbytes=4, read_only=True)
reg("SRAM(16bit,own Memory)", "quick", kind="sram", mw=16, adrs=(0, 1), nbytes=4, as_memory=True)
reg("SRAM(16bit,own Memory,bus_read_only)", "quick", kind="sram", mw=16, adrs=(0, 1), nbytes=4, read_only=True, as_memory=True)
BURSTS = tuple((we, a, kind, n) for we in (0, 1) for (a, kind, n) in ((0, "lin", 2), (1, "lin", 3), (0, "const", 2), (1, "wrap4", 3), (3, "wrap4", 2), (2, "wrap4", 4)))
reg("SRAM(8bit,bursting)", "quick", kind="sram", mw=8, adrs=(0, 1), nbytes=8, bursting=True, bursts=BURSTS)
reg("SRAM(16bit,bursting)", "quick", kind="sram", mw=16, adrs=(0, 1), sels=(0b01, 0b11), nbytes=32, bursting=True, marks=(1,),
    bursts=tuple((we, a, kind, n) for we in (0, 1) for (a, kind, n) in ((0, "lin", 3), (5, "wrap4", 4), (6, "wrap8", 3), (2, "const", 2))))
reg("SRAM(8bit,bursting)+burst_wait_states", "quick", kind="sram", mw=8, adrs=(0,), nbytes=8, bursting=True, burst_wait_states=True, marks=(1,),
    bursts=tuple((we, a, kind, n) for we in (0, 1) for (a, kind, n) in ((0, "lin", 3), (1, "wrap4", 4), (2, "const", 2))))
# cache: addresses 0, 2, 4 collide in a 2-line cache (16/16: line = 1 word), 1 is the other line.  With one data mark per lane the
# product closes (every byte is 0 or its mark), so these runs have no operation-depth bound; the two-mark runs keep a bound (and the
# read-back epilogue) and are thorough-only
reg("Cache(size=2,16/16)+SRAM", "quick", kind="cache", mw=16, sw=16, adrs=(0, 2, 4, 1), sels=(0b01, 0b11, 0b10, 0b00), cachesize=2, backing="sram", nbytes=16, marks=(1,))
reg("Cache(size=2,16/16,reverse=False)+SRAM", "quick", kind="cache", mw=16, sw=16, adrs=(0, 2, 4), sels=(0b01, 0b11), cachesize=2, backing="sram", nbytes=16, reverse=False, marks=(1,))
reg("Cache(size=4,16/32)+SRAM", "quick", kind="cache", mw=16, sw=32, adrs=(0, 1, 8, 9), sels=(0b01, 0b11, 0b00), cachesize=4, backing="sram", nbytes=32, marks=(1,))
reg("Cache(size=4,16/32,reverse=False)+SRAM", "quick", kind="cache", mw=16, sw=32, adrs=(0, 1, 8), sels=(0b01, 0b11), cachesize=4, backing="sram", nbytes=32, reverse=False, marks=(1,))
reg("Cache(size=2,32/16)+SRAM", "quick", kind="cache", mw=32, sw=16, adrs=(0, 2, 4), sels=(0b0001, 0b1111, 0b0110, 0b0000), cachesize=2, backing="sram", nbytes=32, marks=(1,))
reg("Cache(size=2,32/8)+SRAM", "quick", kind="cache", mw=32, sw=8, adrs=(0, 2), sels=(0b0001, 0b1111, 0b0110), cachesize=2, backing="sram", nbytes=16, marks=(1,))
reg("Cache(size=2,16/16)+envmem", "quick", kind="cache", mw=16, sw=16, adrs=(0, 2, 4), sels=(0b01, 0b11, 0b00), cachesize=2, nbytes=16, zero_env=True, marks=(1,))
# line wider than the slave word in front of the ENVIRONMENT memory (free latency incl. zero-wait acks; the real SRAM re-writes in its ack cycle and hides early data)
reg("Cache(size=2,32/16)+envmem", "quick", kind="cache", mw=32, sw=16, adrs=(0, 2), sels=(0b0001, 0b1111, 0b0110), cachesize=2, nbytes=32, zero_env=True, marks=(1,))
reg("Cache(size=2,32/8)+envmem", "quick", kind="cache", mw=32, sw=8, adrs=(0, 2), sels=(0b0001, 0b1111), cachesize=2, nbytes=16, zero_env=True, marks=(1,))
reg("Cache(size=2,16/16)+envmem,lat2", "thorough", kind="cache", mw=16, sw=16, adrs=(0, 2, 4), sels=(0b01, 0b11), cachesize=2, nbytes=16, zero_env=True, maxlat=2, marks=(1,))
reg("Cache(size=2,16/16)+SRAM,2marks,depth5", "thorough", kind="cache", mw=16, sw=16, adrs=(0, 2, 4, 1), sels=(0b01, 0b11, 0b10), cachesize=2, backing="sram", nbytes=16, depth=5, cap=3_000_000)
reg("Cache(size=2,16/16)+SRAM,2marks", "thorough", kind="cache", mw=16, sw=16, adrs=(0, 2, 4), sels=(0b01, 0b11), cachesize=2, backing="sram", nbytes=16, cap=3_000_000)
reg("Cache(size=4,16/32)+SRAM,2marks,depth4", "thorough", kind="cache", mw=16, sw=32, adrs=(0, 1, 8, 9), sels=(0b01, 0b11, 0b10), cachesize=4, backing="sram", nbytes=32, depth=4)
reg("Cache(size=2,32/16)+SRAM,2marks,depth4", "thorough", kind="cache", mw=32, sw=16, adrs=(0, 2, 4), sels=(0b0001, 0b1111, 0b0110), cachesize=2, backing="sram", nbytes=32, depth=4)
reg("Cache(size=8,16/64)+SRAM", "thorough", kind="cache", mw=16, sw=64, adrs=(0, 3, 8, 11), sels=(0b01, 0b11), cachesize=8, backing="sram", nbytes=32, marks=(1,))
reg("Cache(size=2,16/16)+SRAM+nonzero_backing", "quick", kind="cache", mw=16, sw=16, adrs=(0, 2), sels=(0b11,), cachesize=2, backing="sram", nbytes=16, depth=3, nonzero=True)


def mkh(name):
    kw = dict(REG[name][1])
    if kw.pop("zero_env", False):
        class H(WbMemHarness):
            def init_byte(self, a):
                return 0
        return lambda: H(name, **kw)
    return lambda: WbMemHarness(name, **kw)


def configs(tier):
    return [(n,) for n, (t, kw) in REG.items() if t == "quick" or tier == "thorough"]


def tuple_deep(x):
    return tuple(tuple_deep(y) for y in x) if isinstance(x, (list, tuple)) else x


def run_config(cfg, seed, tier):
    f = mkh(cfg[0])
    H = f()
    res = Explorer(H, seed=seed).run()
    out = res.as_dict()
    if H.depth is not None:
        out["bounded_depth_ops"] = H.depth
    for v in out["violations"]:
        cyc = [tuple_deep(c) for c in v["cycle"]] if v.get("cycle") else None
        q = [q for q in H.live_queries if q[0] == v["rule"]][0] if cyc else None
        rp = replay_stock(f, [tuple_deep(c) for c in v["trace"]], cyc, q)
        v["replayed"] = dict(reproduced=rp["reproduced"], path=rp["path"], cycles=rp["cycles"])
        if not rp["reproduced"]:
            raise MachineryError(f"{cfg[0]}: violation {v['rule']} does not reproduce on the stock simulator: {rp}")
    return out


def replay(rec):
    f = mkh(rec["cfg"])
    cyc = [tuple_deep(c) for c in rec["cycle"]] if rec.get("cycle") else None
    q = [q for q in f().live_queries if q[0] == rec["rule"]][0] if cyc else None
    rp = replay_stock(f, [tuple_deep(c) for c in rec["trace"]], cyc, q)
    return dict(cfg=rec["cfg"], rule=rec["rule"], reproduced=rp["reproduced"], err=rp["err"], path=rp["path"], cycles=rp["cycles"])


# ---------------------------------------------------------------------------------------------------
# wishbone.Remapper: purely combinational, every address of a small space (origin/size and region lists)
# ---------------------------------------------------------------------------------------------------
from litex.soc.integration.soc import SoCRegion as _SoCRegion
from fsmc.design import Design as _Design

REMAP = {
    "Remapper(origin=0x100,size=0x100,word)": dict(addressing="word", origin=0x100, size=0x100),
    "Remapper(origin=0x200,size=0x80,byte)": dict(addressing="byte", origin=0x200, size=0x80),
    "Remapper(size=0x800 + regions 0x40+0x40->0x300, 0x100+0x20->0x80,byte)": dict(addressing="byte", size=0x800, src=[(0x40, 0x40), (0x100, 0x20)], dst=[(0x300, 0x40), (0x80, 0x20)]),
    "Remapper(regions 0x40+0x40->0x300,word)": dict(addressing="word", src=[(0x40, 0x40)], dst=[(0x300, 0x40)]),
    "Remapper(regions 0x40+0x40->0x300,byte)+byte_default_size": dict(addressing="byte", src=[(0x40, 0x40)], dst=[(0x300, 0x40)]),
    "Remapper(origin=0x400,size=0x200 + region 0x480+0x40->0x40,word)": dict(addressing="word", origin=0x400, size=0x200, src=[(0x480, 0x40)], dst=[(0x40, 0x40)]),
}


def remap_ref(byte_adr, aw, origin, size, src, dst):
    """documented function: initial origin/mask remap, then region-based remap (on byte addresses)"""
    if size is None:
        size = 1 << aw
    a = origin | (byte_adr & (size - 1))
    for (so, ss), (do, ds) in zip(src, dst):
        if so <= a < so + ss:
            return do + a - so          # later regions override earlier ones (last assignment wins)
    return a


def run_remapper(name):
    kw = REMAP[name]
    aw = 11
    dw = 32
    class W(Module):
        def __init__(self):
            self.m = wishbone.Interface(data_width=dw, address_width=aw, addressing=kw["addressing"])
            self.s = wishbone.Interface(data_width=dw, address_width=aw, addressing=kw["addressing"])
            self.submodules.r = wishbone.Remapper(self.m, self.s, origin=kw.get("origin", 0), size=kw.get("size"),
                                                  src_regions=[_SoCRegion(origin=o, size=s) for o, s in kw.get("src", [])],
                                                  dst_regions=[_SoCRegion(origin=o, size=s) for o, s in kw.get("dst", [])])
    w = W()
    D = _Design(w)
    mi, si = D.i(w.m.adr), D.i(w.s.adr)
    shift = 2 if kw["addressing"] == "word" else 0
    n = viol = 0
    first = None
    src, dst = kw.get("src", []), kw.get("dst", [])
    # regions are applied in order, a later active region overrides an earlier one
    for adr in range(1 << len(w.m.adr)):
        v = D.load(())
        v[mi] = adr
        D.fs.settle()
        got = v[si]
        a = remap_ref(adr << shift, aw, kw.get("origin", 0), kw.get("size"), list(reversed(src)), list(reversed(dst)))
        exp = (a >> shift) & ((1 << len(w.s.adr)) - 1)
        n += 1
        if n % 97 == 0:
            D.conform((), list(v), list(v), ())
        if got != exp and first is None:
            first = dict(rule="remap.address", msg=f"master adr {adr:#x} -> slave adr {got:#x}, documented mapping gives {exp:#x}", detail=dict(adr=adr))
    return dict(cfg=name, states=n, transitions=n, conformed=n//97, exhaustive=True, violations=[first] if first else [],
                sample=[dict(master_adr=5, addressing=kw["addressing"])])


_configs0, _run0, _replay0 = configs, run_config, replay


# the CSR bridge (part of this property's statement) is explored by the bridge harness of C09; its full-word / no-lane configurations run here too
# (the partial-select configuration carries C09's known finding KF-C09-1 and stays there)
CSR_BRIDGE = ("Wishbone2CSR(32bit,register=True)", "Wishbone2CSR(32bit,register=False)",
              "Wishbone2CSR(32bit,register=False),no-lane cycles", "Wishbone2CSR(32bit,register=True),no-lane cycles")


def configs(tier):
    return _configs0(tier) + [(n,) for n in REMAP] + [(n,) for n in CSR_BRIDGE]


def run_config(cfg, seed, tier):
    if cfg[0] in REMAP:
        return run_remapper(cfg[0])
    if cfg[0] in CSR_BRIDGE:
        from checks import c09_bridges
        return c09_bridges.run_config(cfg, seed, tier)
    return _run0(cfg, seed, tier)


def replay(rec):
    if rec["cfg"] in REMAP:
        r = run_remapper(rec["cfg"])
        return dict(cfg=rec["cfg"], rule=rec["rule"], reproduced=bool(r["violations"]))
    if rec["cfg"] in CSR_BRIDGE:
        from checks import c09_bridges
        return c09_bridges.replay(rec)
    return _replay0(rec)
