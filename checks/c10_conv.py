"""C10 part 2 — AXIUpConverter / AXIDownConverter / AXIConverter between an environment AXI master (one write burst
and/or one read burst, valid timing free, ready free) and an environment AXI slave (ready free, response timing free,
read data = a fixed function of the byte address).  Oracles work on bytes: the (byte address, byte) pairs the slave side
is told to write (slave-side AW + W strobes, decoded with the reference equations of c10_ref) must be the master's
sequence; read beats must carry the addressed bytes on the master's byte lanes; beat counts / last / id / resp."""
import itertools
import fsmc  # noqa
from migen import *
from litex.soc.interconnect.axi import AXIInterface, AXIUpConverter, AXIDownConverter, AXIConverter
from fsmc.explore import Harness, COOP, PROGRESS
from fsmc.design import MachineryError
from checks import c10_ref as ref

AW, IDW = 32, 2
AX = ("valid", "ready", "addr", "len", "size", "burst", "id")
CLS = {"AXIUpConverter": AXIUpConverter, "AXIDownConverter": AXIDownConverter, "AXIConverter": AXIConverter}


class ConvDUT(Module):
    def __init__(self, cls, dwf, dwt):
        self.m = AXIInterface(data_width=dwf, address_width=AW, id_width=IDW)
        self.s = AXIInterface(data_width=dwt, address_width=AW, id_width=IDW)
        self.submodules.dut = CLS[cls](self.m, self.s)


def mem_byte(a):
    """content of the environment slave's (read-only view of the) memory"""
    return (a * 0x1D + 0x35 + (a >> 8) * 7 + (a >> 3)) & 0xFF


def w_mark(n, lane):
    return (0x11 + 0x25 * n + 0x07 * lane) & 0xFF


def strobed(n, lanes):
    """which of the legal (address, lane) pairs of master beat n carry a strobe: sparse strobes on some beats"""
    if len(lanes) > 1:
        if n % 4 == 1:
            return lanes[1:]
        if n % 4 == 2:
            return lanes[:-1]
    return lanes


class Info:
    """everything static about one master-side burst (computed once with the reference equations)"""
    def __init__(self, b, mb):
        addr, ln, size, burst, bid, resp = b
        why = ref.illegal(addr, ln, size, burst, mb)
        if why:
            raise MachineryError(f"harness generated an illegal burst {b}: {why}")
        self.lanes = ref.beat_bytes(addr, ln, size, burst, mb)
        self.E = []
        self.wbeats = []
        for n, lanes in enumerate(self.lanes):
            data = 0
            for lane in range(mb):
                data |= (0xE0 | (lane & 0xF)) << (8 * lane)          # junk on lanes without strobe
            strb = 0
            for (a, lane) in strobed(n, lanes):
                m = w_mark(n, lane)
                data = (data & ~(0xFF << (8 * lane))) | (m << (8 * lane))
                strb |= 1 << lane
                self.E.append((a, m))
            self.wbeats.append((data, strb, 1 if n == ln else 0))


class ConvHarness(Harness):
    """env = (burst, W, R)
         burst = None before the request is chosen | (addr, len, size, burst, id, resp)
         W = (m_aw, m_wi, m_wh, s_aw, s_wn, s_buf, pos, s_wl, s_b, m_b) | None (no write in this run)
             m_aw 0 not offered / 1 offered / 2 accepted; m_wi master W beats accepted; m_wh beat m_wi is being offered;
             s_aw slave-side AW as accepted (addr, len, size, burst, id) | None; s_wn slave-side W beats decoded;
             s_buf W beats accepted before AW; pos = number of (address, byte) pairs matched; s_wl last W accepted;
             s_b 0 not due / 1 due / 2 offered / 3 accepted by the DUT; m_b master has its B
         R = (m_ar, s_ar, s_rn, s_rh, m_rn, m_rl) | None
             s_rn slave R beats accepted by the DUT; s_rh beat s_rn is being offered; m_rn master R beats; m_rl all received
       choice = ("burst", ...) | (aw_v, w_v, b_r, ar_v, r_r, aw_r, w_r, b_v, ar_r, r_v)"""
    conf_first = 12
    conf_every = 47
    cap = 2_000_000
    live_queries = (("live.stuck", COOP, PROGRESS, (),
                     "master and slave offer and accept everything, the transaction is not finished, no handshake ever happens"),)

    def __init__(self, name, cls, dwf, dwt, mode, sideband=True):
        self.name, self.cls, self.dwf, self.dwt, self.mode, self.sideband = name, cls, dwf, dwt, mode, sideband
        self.mb, self.sb = dwf // 8, dwt // 8
        self.group = []
        self._info = {}
        self._rbeat = {}
        self.cov = dict(bursts=0, m_w_beats=0, s_w_beats=0, bytes_written=0, m_r_beats=0, s_r_beats=0, bytes_read=0,
                        w_before_aw=0, finished=0, stalled_handshakes=0)

    def set_group(self, g):
        self.group = list(g)
        self.cov["bursts"] += len(self.group)

    def build(self):
        self.dut = ConvDUT(self.cls, self.dwf, self.dwt)
        return self.dut

    def bind(self, D):
        def ch(itf):
            out = {}
            for c, names in (("aw", AX), ("ar", AX), ("w", ("valid", "ready", "data", "strb", "last")),
                             ("b", ("valid", "ready", "id", "resp")), ("r", ("valid", "ready", "data", "resp", "id", "last"))):
                out[c] = {n: D.i(getattr(getattr(itf, c), n)) for n in names}
            return out
        self.M, self.S = ch(self.dut.m), ch(self.dut.s)

    def info(self, b):
        i = self._info.get(b)
        if i is None:
            i = self._info[b] = Info(b, self.mb)
        return i

    def env_init(self):
        return (None, None, None)

    W0 = (0, 0, 0, None, 0, (), 0, 0, 0, 0)
    R0 = (0, None, 0, 0, 0, 0)

    # ---- termination ---------------------------------------------------------------------------------------
    @staticmethod
    def w_done(b, W):
        return W is None or (W[0] == 2 and W[1] == b[1] + 1 and W[7] and W[8] == 3 and W[9])

    @staticmethod
    def r_done(b, R):
        return R is None or (R[0] == 2 and R[5] and R[1] is not None and R[2] == R[1][1] + 1)

    # ---- choices -------------------------------------------------------------------------------------------
    def choices(self, env):
        b, W, R = env
        if b is None:
            return [("burst",) + tuple(x) for x in self.group]
        ln = b[1]
        aw_v = w_v = ar_v = aw_r = ar_r = b_v = r_v = (0,)
        b_r = r_r = w_r = (1,)
        if W is not None and not self.w_done(b, W):
            m_aw, m_wi, m_wh, s_aw, s_wn, s_buf, pos, s_wl, s_b, m_b = W
            aw_v = {0: (0, 1), 1: (1,), 2: (0,)}[m_aw]
            w_v = ((1,) if m_wh else (0, 1)) if m_wi <= ln else (0,)
            aw_r = (0, 1) if s_aw is None else (0,)
            w_r = (0, 1) if not s_wl else (1,)
            b_v = {0: (0,), 1: (0, 1), 2: (1,), 3: (0,)}[s_b]
            b_r = (0, 1)
        if R is not None and not self.r_done(b, R):
            m_ar, s_ar, s_rn, s_rh, m_rn, m_rl = R
            ar_v = {0: (0, 1), 1: (1,), 2: (0,)}[m_ar]
            ar_r = (0, 1) if s_ar is None else (0,)
            if s_ar is not None and s_rn <= s_ar[1]:
                r_v = (1,) if s_rh else (0, 1)
            r_r = (0, 1)
        return list(itertools.product(aw_v, w_v, b_r, ar_v, r_r, aw_r, w_r, b_v, ar_r, r_v))

    # ---- inputs --------------------------------------------------------------------------------------------
    def _ax(self, v, X, valid, b, g):
        v[X["valid"]] = valid
        if valid:
            v[X["addr"]], v[X["len"]], v[X["size"]], v[X["burst"]], v[X["id"]] = b[:5]
        elif g:
            v[X["addr"]], v[X["len"]], v[X["size"]], v[X["burst"]], v[X["id"]] = (1 << AW) - 1, 0xFF, 7, 3, (1 << IDW) - 1
        else:
            v[X["addr"]] = v[X["len"]] = v[X["size"]] = v[X["burst"]] = v[X["id"]] = 0

    def slave_rbeat(self, s_ar, j, resp):
        k = (s_ar, j)
        r = self._rbeat.get(k)
        if r is None:
            a, ln, sz, bt, i = s_ar
            adr, lo, up = ref.byte_lanes(a, ln, sz, bt, j + 1, self.sb)
            word = (adr // self.sb) * self.sb
            data = 0
            for lane in range(self.sb):
                byte = mem_byte(word + lane) if lo <= lane <= up else (0xE0 | (lane & 0xF))
                data |= byte << (8 * lane)
            r = self._rbeat[k] = (data, 1 if j == ln else 0, i)
        return r

    def drive(self, v, env, ch):
        b, W, R = env
        M, S = self.M, self.S
        if b is None or ch[0] == "burst":
            ch = (0, 0, 1, 0, 1, 0, 1, 0, 0, 0)
            bb = (0, 0, 0, 0, 0, 0)
        else:
            bb = b
        aw_v, w_v, b_r, ar_v, r_r, aw_r, w_r, b_v, ar_r, r_v = ch
        all_m, all_s = (1 << self.dwf) - 1, (1 << self.dwt) - 1
        # master
        self._ax(v, M["aw"], aw_v, bb, W is None or W[0] == 0)
        self._ax(v, M["ar"], ar_v, bb, R is None or R[0] == 0)
        X = M["w"]
        v[X["valid"]] = w_v
        if w_v:
            v[X["data"]], v[X["strb"]], v[X["last"]] = self.info(b).wbeats[W[1]]
        else:
            g = 1 if (W is None or (W[1] & 1) == 0) else 0
            v[X["data"]], v[X["strb"]], v[X["last"]] = (all_m, (1 << self.mb) - 1, 1) if g else (0, 0, 0)
        v[M["b"]["ready"]] = b_r
        v[M["r"]["ready"]] = r_r
        # slave
        v[S["aw"]["ready"]] = aw_r
        v[S["w"]["ready"]] = w_r
        v[S["ar"]["ready"]] = ar_r
        X = S["b"]
        v[X["valid"]] = b_v
        if b_v:
            v[X["id"]], v[X["resp"]] = W[3][4], bb[5]
        else:
            v[X["id"]], v[X["resp"]] = (~bb[4]) & ((1 << IDW) - 1), (~bb[5]) & 3
        X = S["r"]
        v[X["valid"]] = r_v
        if r_v:
            data, last, i = self.slave_rbeat(R[1], R[2], bb[5])
            v[X["data"]], v[X["last"]], v[X["id"]], v[X["resp"]] = data, last, i, bb[5]
        else:
            g = 1 if (R is None or (R[2] & 1) == 0) else 0
            v[X["data"]], v[X["last"]] = (all_s, 1) if g else (0, 0)
            v[X["id"]], v[X["resp"]] = (~bb[4]) & ((1 << IDW) - 1), (~bb[5]) & 3

    # ---- monitors ------------------------------------------------------------------------------------------
    def quiet(self, v, when, skip_w=False, skip_r=False):
        M, S = self.M, self.S
        if not skip_w:
            for nm, X in (("aw", S["aw"]), ("w", S["w"])):
                if v[X["valid"]]:
                    return (nm + ".spurious", f"slave-side {nm}.valid=1 {when}")
            if v[M["b"]["valid"]]:
                return ("b.spurious", f"master-side b.valid=1 {when}")
        if not skip_r:
            if v[S["ar"]["valid"]]:
                return ("ar.spurious", f"slave-side ar.valid=1 {when}")
            if v[M["r"]["valid"]]:
                return ("r.spurious", f"master-side r.valid=1 {when}")
        return None

    def _capture(self, v, X, b, nm):
        cap = (v[X["addr"]], v[X["len"]], v[X["size"]], v[X["burst"]], v[X["id"]])
        why = ref.illegal(cap[0], cap[1], cap[2], cap[3], self.sb, AW)
        if why:
            return None, (nm + ".illegal", f"{self.bname(b)}: slave-side {nm.upper()} addr={cap[0]:#x} len={cap[1]} size={cap[2]} "
                                           f"burst={ref.BURST_NAMES[cap[3]]} is not a legal AXI burst: {why}")
        if self.sideband and cap[4] != b[4]:
            return None, (nm + ".id", f"{self.bname(b)}: slave-side {nm.upper()} id={cap[4]}, master sent {b[4]}")
        return cap, None

    def bname(self, b):
        return f"{ref.BURST_NAMES[b[3]]} addr={b[0]:#x} len={b[1]} size={b[2]} on {self.dwf}->{self.dwt} bit"

    def _decode_w(self, b, info, s_aw, j, beat, pos):
        """decode slave-side W beat j against the slave-side AW with the reference equations; returns (pos, err)"""
        a, ln, sz, bt, i = s_aw
        data, strb, last = beat
        if j > ln:
            return pos, ("w.count", f"{self.bname(b)}: slave side receives W beat {j+1} of a burst announced with len={ln}")
        adr, lo, up = ref.byte_lanes(a, ln, sz, bt, j + 1, self.sb)
        word = (adr // self.sb) * self.sb
        E = info.E
        for lane in range(self.sb):
            if (strb >> lane) & 1:
                if lane < lo or lane > up:
                    return pos, ("w.strb.lane", f"{self.bname(b)}: slave-side W beat {j+1} (address {adr:#x}, size {sz}) strobes lane {lane} "
                                                f"outside its byte lanes {lo}..{up}")
                pair = (word + lane, (data >> (8 * lane)) & 0xFF)
                if pos >= len(E):
                    return pos, ("w.bytes.extra", f"{self.bname(b)}: slave side writes byte {pair[1]:#x} to {pair[0]:#x} after all "
                                                  f"{len(E)} bytes of the master's burst")
                if pair != E[pos]:
                    return pos, ("w.bytes", f"{self.bname(b)}: write #{pos+1} on the slave side is byte {pair[1]:#x} to {pair[0]:#x}, the master's "
                                            f"burst has byte {E[pos][1]:#x} to {E[pos][0]:#x} there (slave-side AW addr={a:#x} len={ln} size={sz} "
                                            f"{ref.BURST_NAMES[bt]}, beat {j+1})")
                pos += 1
        if last != (1 if j == ln else 0):
            return pos, ("w.last", f"{self.bname(b)}: slave-side W beat {j+1} of {ln+1} (slave-side AW len={ln}) has last={last}")
        if last and pos != len(E):
            return pos, ("w.bytes.missing", f"{self.bname(b)}: slave-side burst ends after {pos} of the master's {len(E)} strobed bytes")
        self.cov["s_w_beats"] += 1
        return pos, None

    def observe(self, v, env, ch):
        b, W, R = env
        M, S = self.M, self.S
        if b is None:
            err = self.quiet(v, "before any request was made")
            if err:
                return env, err, 0
            nb = tuple(ch[1:])
            return (nb, self.W0 if "w" in self.mode else None, self.R0 if "r" in self.mode else None), None, 0
        if self.w_done(b, W) and self.r_done(b, R):
            err = self.quiet(v, "after the transaction(s) completed")
            if err:
                return env, (err[0].replace("spurious", "extra"), f"{self.bname(b)}: {err[1]}"), 0
            return env, None, 0
        info = self.info(b)
        addr, ln, size, burst, bid, resp = b
        aw_v, w_v, b_r, ar_v, r_r, aw_r, w_r, b_v, ar_r, r_v = ch
        prog, coop = False, True
        W2, R2 = W, R
        cov = self.cov
        if W is None:
            err = self.quiet(v, "in a read-only run", skip_r=True)
            if err:
                return env, err, 0
        else:
            m_aw, m_wi, m_wh, s_aw, s_wn, s_buf, pos, s_wl, s_b, m_b = W
            # master AW
            if aw_v:
                if v[M["aw"]["ready"]]:
                    m_aw, prog = 2, True
                else:
                    m_aw = 1
            elif m_aw == 0:
                coop = False
            # slave AW
            X = S["aw"]
            if v[X["valid"]]:
                if s_aw is not None:
                    return env, ("aw.extra", f"{self.bname(b)}: a second AW is offered to the slave"), 0
                if aw_r:
                    s_aw, err = self._capture(v, X, b, "aw")
                    if err:
                        return env, err, 0
                    prog = True
            if s_aw is None and not aw_r:
                coop = False
            # master W
            if w_v:
                if v[M["w"]["ready"]]:
                    m_wi, m_wh, prog = m_wi + 1, 0, True
                    cov["m_w_beats"] += 1
                else:
                    m_wh = 1
                    cov["stalled_handshakes"] += 1
            elif m_wi <= ln:
                coop = False
            # slave W
            X = S["w"]
            if v[X["valid"]]:
                if s_wl:
                    return env, ("w.extra", f"{self.bname(b)}: a W beat is offered to the slave after the beat with last=1"), 0
                if w_r:
                    beat = (v[X["data"]], v[X["strb"]], v[X["last"]])
                    s_buf = s_buf + (beat,)
                    if beat[2]:
                        s_wl = 1
                    if s_aw is None:
                        cov["w_before_aw"] += 1
                    prog = True
            if not s_wl and not w_r:
                coop = False
            if s_aw is not None and s_buf:
                for beat in s_buf:
                    n0 = pos
                    pos, err = self._decode_w(b, info, s_aw, s_wn, beat, pos)
                    if err:
                        return env, err, 0
                    cov["bytes_written"] += pos - n0
                    s_wn += 1
                s_buf = ()
            # slave B
            if b_v:
                if v[S["b"]["ready"]]:
                    s_b, prog = 3, True
                else:
                    s_b = 2
            elif s_b == 1:
                coop = False
            # master B
            X = M["b"]
            if v[X["valid"]]:
                if m_b:
                    return env, ("b.extra", f"{self.bname(b)}: a second write response reaches the master"), 0
                if not b_v:
                    return env, ("b.spurious", f"{self.bname(b)}: master sees b.valid=1 while the slave offers no response"), 0
                if b_r:
                    if self.sideband and (v[X["id"]], v[X["resp"]]) != (bid, resp):
                        return env, ("b.sideband", f"{self.bname(b)}: write response reaches the master with id={v[X['id']]} resp={v[X['resp']]}, "
                                                   f"the slave answered id={bid} resp={resp}"), 0
                    m_b, prog = 1, True
            if W[8] in (1, 2) and not m_b and not b_r:
                coop = False
            if s_b == 0 and s_aw is not None and s_wl:
                s_b = 1
            W2 = (m_aw, m_wi, m_wh, s_aw, s_wn, s_buf, pos, s_wl, s_b, m_b)
        if R is None:
            err = self.quiet(v, "in a write-only run", skip_w=True)
            if err:
                return env, err, 0
        else:
            m_ar, s_ar, s_rn, s_rh, m_rn, m_rl = R
            if ar_v:
                if v[M["ar"]["ready"]]:
                    m_ar, prog = 2, True
                else:
                    m_ar = 1
            elif m_ar == 0:
                coop = False
            X = S["ar"]
            if v[X["valid"]]:
                if s_ar is not None:
                    return env, ("ar.extra", f"{self.bname(b)}: a second AR is offered to the slave"), 0
                if ar_r:
                    s_ar, err = self._capture(v, X, b, "ar")
                    if err:
                        return env, err, 0
                    prog = True
            if s_ar is None and not ar_r:
                coop = False
            # slave R
            if r_v:
                if v[S["r"]["ready"]]:
                    s_rn, s_rh, prog = s_rn + 1, 0, True
                    cov["s_r_beats"] += 1
                else:
                    s_rh = 1
                    cov["stalled_handshakes"] += 1
            elif R[1] is not None and R[2] <= R[1][1]:
                coop = False
            # master R
            X = M["r"]
            if v[X["valid"]]:
                if m_rl:
                    return env, ("r.extra", f"{self.bname(b)}: an R beat is offered to the master after the {ln+1} beat(s) of its burst"), 0
                if R[1] is None:
                    return env, ("r.spurious", f"{self.bname(b)}: master sees r.valid=1 before the slave got any AR"), 0
                if r_r:
                    data = v[X["data"]]
                    for (a, lane) in info.lanes[m_rn]:
                        got = (data >> (8 * lane)) & 0xFF
                        if got != mem_byte(a):
                            return env, ("r.data", f"{self.bname(b)}: R beat {m_rn+1} lane {lane} (byte address {a:#x}) carries {got:#x}, "
                                                   f"memory holds {mem_byte(a):#x} (slave-side AR addr={R[1][0]:#x} len={R[1][1]} size={R[1][2]} "
                                                   f"{ref.BURST_NAMES[R[1][3]]})"), 0
                    cov["bytes_read"] += len(info.lanes[m_rn])
                    if v[X["last"]] != (1 if m_rn == ln else 0):
                        return env, ("r.last", f"{self.bname(b)}: R beat {m_rn+1} of {ln+1} has last={v[X['last']]}"), 0
                    if self.sideband and (v[X["id"]], v[X["resp"]]) != (bid, resp):
                        return env, ("r.sideband", f"{self.bname(b)}: R beat {m_rn+1} reaches the master with id={v[X['id']]} resp={v[X['resp']]}, "
                                                   f"the slave sent every beat of the burst with id={bid} resp={resp}"), 0
                    if m_rn == ln:
                        m_rl = 1
                    m_rn, prog = m_rn + 1, True
                    cov["m_r_beats"] += 1
            if R[1] is not None and not R[5] and not r_r:
                coop = False
            R2 = (m_ar, s_ar, s_rn, s_rh, m_rn, m_rl)
        flags = (COOP if coop else 0) | (PROGRESS if prog else 0)
        if self.w_done(b, W2) and self.r_done(b, R2):
            cov["finished"] += 1
        return (b, W2, R2), None, flags

    def cover_report(self):
        return dict(self.cov)
