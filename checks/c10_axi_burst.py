"""C10 — AXI bursts are expanded and resized according to the AXI address rules (DESIGN.md §4 C10).

Part 1 (cfg names `AXIBurst2Beat[...]`): every legal burst of the enumerated space is held on `ax_burst` and explored to
closure against a free `ax_beat.ready`; the oracle is checks/c10_ref.py (AMBA equations in closed form).
Part 2 (cfg names `AXIUpConverter(..)`, `AXIDownConverter(..)`, `AXIConverter(..)`): one write and/or one read burst through
the converter, every valid/ready schedule of the five channels on both sides, byte-level oracles (checks/c10_conv.py).
Burst classes the converters do not translate (candidate r of DESIGN §3) carry a `+tag` in the configuration name; the
untagged configurations (full-width, bus-aligned, ratio-multiple INCR bursts) and the `,tag` ones (further classes the
code does translate) must be clean."""
import fsmc  # noqa
from fsmc.explore import Explorer, replay_stock
from fsmc.design import MachineryError
from checks import c10_ref as ref
from checks.c10_b2b import B2BHarness, burst_space, groups_of, QUICK_LENS
from checks.c10_conv import ConvHarness
from checks.c10_pipe import PipeReadHarness, PIPE, pairs as pipe_pairs, PipeWriteHarness, PIPEW, wpairs as pipe_wpairs

PROPERTY = "C10"
LEVEL = "model_checking"
RULE = ("AXIBurst2Beat: for every legal burst (FIXED/INCR/WRAP x size 0..3 [thorough 0..7] x len 0..16,31,63,255 [thorough 0..255 for size <= 3; "
        "WRAP 1,3,7,15] x a start-address grid with every alignment class, page-end and address-space-end placements, no 4 KiB "
        "crossing) BFS to closure of (real FHDL x held request x free ax_beat.ready), all bursts of a group started from the common "
        "idle state (= back-to-back) with idle garbage on the request lines; every beat compared with the AMBA equations at "
        "addr >> size.  Converters: for every burst of a class (type x size x len <= 7 [thorough 15] x start offsets) BFS to "
        "closure of (real converter FHDL x environment master x environment slave) under every valid delay and every ready "
        "pattern on AW/W/B/AR/R of both sides; distinct = explored product states")
ASSUMPTIONS = [
    "2-state zero-delay FHDL semantics of litex.gen.sim; 32-bit addresses, 2-bit ids",
    "only legal bursts are generated (size <= log2(bus bytes), WRAP: 2/4/8/16 transfers with a size-aligned start, INCR not crossing 4 KiB); "
    "FIXED bursts longer than 16 transfers (not allowed by AXI4, inside the property's len 0..255) are explored in separately named configurations",
    "beat addresses are compared at transfer-size granularity (addr >> size); LiteX keeps the unaligned low bits on later INCR beats (DESIGN 4b)",
    "the request is held (valid and payload stable) until ax_burst.ready; while valid=0 the request lines carry all-zeros or all-ones",
    "converters: one write burst and/or one read burst per run; master strobes only legal byte lanes (sparse strobes on some beats), "
    "slave drives junk on read lanes outside the transfer; read data is a fixed function of the byte address (no read-after-write through memory)",
    "converters: over-fetching reads (slave-side burst covering more bytes than the master's) are not an error as long as the master receives its bytes on its lanes",
    "id/resp side-band alignment is not part of the property text; it is checked only in the '+sideband' configurations (rules r.sideband, b.sideband, aw.id, ar.id)",
    "burst classes named by a +tag (narrow, unaligned, partial, fixed, wrap, lenoverflow) are outside what axi_full.py claims to support "
    "('Assuming size of axi_from burst >= axi_to data_width'); the untagged base configurations and the ','-tagged extra classes "
    "(,unaligned ,wrap ,maxlen: measured clean on the pinned tree) must be clean",
]
MAXTASKS = 4
BT = {"FIXED": ref.FIXED, "INCR": ref.INCR, "WRAP": ref.WRAP}

# ---------------------------------------------------------------------------------------------------
# configuration tables
# ---------------------------------------------------------------------------------------------------
B2B = {}      # name -> (tier, dict(burst, size, caps, lens_quick, lens_thorough))
CONV = {}     # name -> (tier, dict(cls, dwf, dwt, mode, sideband, klass))


def _b2b():
    for bname, bt in BT.items():
        for size in range(0, 8):
            tier = "quick" if size <= 3 else "thorough"
            bus = {0: "8..64", 1: "16..64", 2: "32/64", 3: "64"}.get(size, str(8 << size))
            # sizes 4..7 (128..1024-bit buses, thorough only) have up to 128 alignment classes: they keep the quick length menu
            if bt == ref.WRAP:
                B2B[f"AXIBurst2Beat[WRAP,size={size},bus={bus}bit]"] = (tier, dict(burst=bt, size=size, lens_q=[1, 3, 7, 15], lens_t=[1, 3, 7, 15]))
            elif bt == ref.INCR:
                mx = min(255, 4096 // (1 << size) - 1)
                lq = sorted({l for l in QUICK_LENS + [mx] if l <= mx})
                B2B[f"AXIBurst2Beat[INCR,size={size},bus={bus}bit]"] = (
                    "quick" if size == 4 else tier, dict(burst=bt, size=size, lens_q=lq, lens_t=list(range(0, mx + 1)) if size <= 3 else lq))
            else:
                B2B[f"AXIBurst2Beat[FIXED,len<=15,size={size},bus={bus}bit]"] = (tier, dict(burst=bt, size=size, lens_q=list(range(16)), lens_t=list(range(16))))
                B2B[f"AXIBurst2Beat[FIXED,len>15,size={size},bus={bus}bit]"] = (
                    tier, dict(burst=bt, size=size, lens_q=[16, 31, 63, 255], lens_t=list(range(16, 256)) if size <= 3 else [16, 31, 63, 255]))
    # the capability sets other than the default (a burst type outside the set must not be requested)
    B2B["AXIBurst2Beat[INCR,size=2,capabilities=FIXED+INCR]"] = ("quick", dict(burst=ref.INCR, size=2, caps=(0, 1), lens_q=QUICK_LENS, lens_t=list(range(256))))
    B2B["AXIBurst2Beat[FIXED,len<=15,size=2,capabilities=FIXED+INCR]"] = ("quick", dict(burst=ref.FIXED, size=2, caps=(0, 1), lens_q=list(range(16)), lens_t=list(range(16))))
    B2B["AXIBurst2Beat[WRAP,size=2,capabilities=FIXED+WRAP]"] = ("quick", dict(burst=ref.WRAP, size=2, caps=(0, 2), lens_q=[1, 3, 7, 15], lens_t=[1, 3, 7, 15]))


def log2(x):
    return x.bit_length() - 1


def conv_bursts(cls, dwf, dwt, klass, tier, part=None):
    """the master-side bursts (addr, len, size, burst, id, resp) of one class.  `part` splits the classes `unaligned`,
    `wrap` and (down-converter) `narrow` into the sub-class the converter translates ("ok": cfg tag ',unaligned' / ',wrap', must stay clean) and the rest
    ("ko": cfg tag '+unaligned' / '+wrap'):
      unaligned/ok  down-converter: every offset (it aligns the address itself); up-converter: offsets inside the first
                    narrow word of a wide word (the converted burst starts at the same address with the wide size)
      wrap/ok       down-converter: (len+1)*ratio <= 16 (the converted WRAP burst is still a legal one);
                    up-converter: start aligned to the wide bus and at least two wide transfers"""
    mb, sb = dwf // 8, dwt // 8
    wide = max(mb, sb)
    ratio = max(mb, sb) // min(mb, sb)
    up = sb > mb
    full = log2(mb)
    maxlen = 7 if tier == "quick" else 15
    mult = lambda ln: (ln + 1) % ratio == 0 if up else True
    P = 0x1000
    out = []

    def add(addr, ln, size, bt):
        if part is not None and klass in ("unaligned", "wrap", "narrow"):
            if klass == "unaligned":
                ok = (addr % wide) < mb if up else True
            elif klass == "narrow":
                ok = ln == 0        # down-converter: a single narrow transfer is translated correctly (the rest is KF-C10-2)
            else:
                ok = (addr % wide == 0 and ln + 1 >= 2 * ratio) if up else ((ln + 1) * ratio <= 16)
            if ok != (part == "ok"):
                return
        if ref.illegal(addr, ln, size, bt, mb) is None:
            out.append((addr, ln, size, bt, 1 + (ln + (addr >> 2)) % 3, 2 if ln % 2 else 0))

    def ends(ln, size):
        tot = (ln + 1) << size
        return [P, 0x3000 - max(tot, wide), 0x100000000 - max(tot, wide)]

    if klass == "base":
        for ln in range(maxlen + 1):
            if mult(ln):
                for a in ends(ln, full):
                    if a % wide == 0:
                        add(a, ln, full, ref.INCR)
    elif klass == "base-small":
        # concurrent write + read: the product of the two schedules is explored, so only the two shortest bursts
        n = 0
        for ln in range(maxlen + 1):
            if mult(ln) and n < (2 if ratio < 8 else 1):
                add(P, ln, full, ref.INCR)
                n += 1
    elif klass == "unaligned":
        for ln in range(maxlen + 1):
            if mult(ln) and (tier == "thorough" or ln in (0, 1, 2, 3, 7)):
                for off in range(1, wide):
                    add(P + off, ln, full, ref.INCR)
    elif klass == "partial":
        for ln in range(max(maxlen, 2 * ratio - 1) + 1):
            if not mult(ln):
                add(P, ln, full, ref.INCR)
                add(0x3000 - wide * (ln // ratio + 1), ln, full, ref.INCR)
    elif klass == "narrow":
        for size in range(full):
            for ln in range(maxlen + 1):
                if tier == "thorough" or ln in (0, 1, 2, 3, 7):
                    add(P, ln, size, ref.INCR)
    elif klass == "narrow+unaligned":
        for size in range(full):
            for ln in (0, 1, 3) if tier == "quick" else (0, 1, 2, 3, 7):
                for off in range(1, wide):
                    add(P + off, ln, size, ref.INCR)
    elif klass == "fixed":
        for ln in range(maxlen + 1):
            add(P, ln, full, ref.FIXED)
        for off in range(1, wide):
            add(P + off, 1, full, ref.FIXED)
    elif klass == "wrap":
        for ln in (1, 3, 7, 15):
            if True:
                tot = (ln + 1) << full
                for wb in (P, 0x3000 - tot):
                    for p in range(ln + 1):
                        add(wb + (p << full), ln, full, ref.WRAP)
    elif klass == "maxlen":
        add(P, 255 if up else 256 // ratio - 1, full, ref.INCR)       # the longest burst whose translation is still a legal burst
    elif klass == "lenoverflow":
        for ln in (256 // ratio, 255):
            add(P, ln, full, ref.INCR)
    elif klass == "all":
        # AXIConverter with equal widths is wiring: every class must be clean
        for k in ("base", "unaligned", "narrow", "narrow+unaligned", "fixed", "wrap"):
            out += conv_bursts(cls, dwf, dwt, k, tier)
    else:
        raise ValueError(klass)
    seen, res = set(), []
    for b in out:
        if b not in seen:
            seen.add(b)
            res.append(b)
    return res


def _conv():
    menu = [("AXIDownConverter", 64, 32, "quick"), ("AXIUpConverter", 32, 64, "quick"),
            ("AXIDownConverter", 32, 8, "quick"), ("AXIUpConverter", 8, 32, "quick"),
            ("AXIDownConverter", 16, 8, "quick"), ("AXIUpConverter", 8, 16, "quick"),
            ("AXIDownConverter", 32, 16, "thorough"), ("AXIUpConverter", 16, 32, "thorough"),
            ("AXIDownConverter", 64, 16, "thorough"), ("AXIUpConverter", 16, 64, "thorough"),
            ("AXIDownConverter", 64, 8, "quick"), ("AXIUpConverter", 8, 64, "quick"),
            ("AXIDownConverter", 128, 64, "thorough"), ("AXIUpConverter", 64, 128, "thorough"),
            ("AXIConverter", 64, 32, "quick"), ("AXIConverter", 32, 64, "quick"), ("AXIConverter", 32, 32, "quick")]
    for cls, dwf, dwt, tier in menu:
        nm = f"{cls}({dwf}->{dwt})"
        up, same = dwt > dwf, dwt == dwf
        for mode, mtag in (("w", "wr"), ("r", "rd"), ("wr", "wr+rd")):
            def reg(tag, klass, sideband=False, t=tier, part=None):
                CONV[f"{nm}[{mtag}]{tag}"] = (t, dict(cls=cls, dwf=dwf, dwt=dwt, mode=mode, sideband=sideband, klass=klass, part=part))
            if same:
                if mode != "wr":
                    reg("", "all", sideband=True)
                continue
            if mode == "wr":
                reg("", "base-small")
                continue
            reg("", "base")
            reg("+sideband", "base", sideband=True)
            if cls == "AXIConverter":
                continue
            if not up or dwf > 8:
                reg(",unaligned", "unaligned", part="ok")
            if up:
                reg("+unaligned", "unaligned", part="ko")
                reg("+partial", "partial")
                reg(",maxlen", "maxlen", t=tier if (dwf, dwt) in ((32, 64), (8, 32)) else "thorough")
            else:
                reg(",maxlen", "maxlen", t=tier if (dwf, dwt) == (64, 32) else "thorough")
                reg("+lenoverflow", "lenoverflow")
            if dwf > 8:
                if up:
                    reg("+narrow", "narrow")
                else:
                    reg(",narrow", "narrow", part="ok")
                    reg("+narrow", "narrow", part="ko")
                reg("+narrow+unaligned", "narrow+unaligned", t="thorough")
            reg("+fixed", "fixed")
            reg(",wrap", "wrap", part="ok")
            reg("+wrap", "wrap", part="ko")


_b2b()
_conv()


def configs(tier):
    out = [(n,) for n, (t, kw) in B2B.items() if t == "quick" or tier == "thorough"]
    out += [(n,) for n, (t, kw) in CONV.items() if t == "quick" or tier == "thorough"]
    out += [(n,) for n, (t, kw) in PIPE.items() if t == "quick" or tier == "thorough"]
    out += [(n,) for n, (t, kw) in PIPEW.items() if t == "quick" or tier == "thorough"]
    return out


def tuple_deep(x):
    return tuple(tuple_deep(y) for y in x) if isinstance(x, (list, tuple)) else x


def mk(name):
    if name in B2B:
        kw = B2B[name][1]
        return lambda: B2BHarness(name, kw["burst"], kw["size"], kw.get("caps", (0, 1, 2)))
    if name in PIPE:
        kw = PIPE[name][1]
        return lambda: PipeReadHarness(name, kw["cls"], kw["dwf"], kw["dwt"])
    if name in PIPEW:
        kw = PIPEW[name][1]
        return lambda: PipeWriteHarness(name, kw["cls"], kw["dwf"], kw["dwt"])
    kw = CONV[name][1]
    return lambda: ConvHarness(name, kw["cls"], kw["dwf"], kw["dwt"], kw["mode"], kw["sideband"])


def _merge(tot, res, viol, failing, label):
    tot["states"] += res.states
    tot["transitions"] += res.transitions
    tot["conformed"] += res.conformed
    tot["depth"] = max(tot["depth"], res.depth)
    if not res.exhaustive and not res.violations:
        tot["exhaustive"] = False
        tot["cap_hit"] = res.cap
    for v in res.violations:
        failing.setdefault(v["rule"], []).append(label)
        old = viol.get(v["rule"])
        if old is None or len(v["trace"]) < len(old["trace"]):
            viol[v["rule"]] = v
    if res.sample and (tot["sample"] is None or len(res.sample) > len(tot["sample"])):
        tot["sample"] = res.sample


def run_config(cfg, seed, tier):
    name = cfg[0]
    f = mk(name)
    H = f()
    ex = Explorer(H, seed=seed)
    tot = dict(cfg=name, states=0, transitions=0, conformed=0, exhaustive=True, cap_hit=None, depth=0, sample=None)
    viol, failing = {}, {}
    if name in B2B:
        kw = B2B[name][1]
        space = burst_space(kw["burst"], kw["size"], kw["lens_q"] if tier == "quick" else kw["lens_t"])
        if not space:
            raise MachineryError(f"{name}: empty burst space")
        H.conf_every = max(1, 4 * sum(b[1] + 1 for b in space) // 2500)
        for g in groups_of(space):
            H.set_group(g)
            _merge(tot, ex.run(), viol, failing, f"{len(g)} bursts from addr={g[0][0]:#x} len={g[0][1]}")
        cov = H.cover_report()
        if not viol:
            if cov["beats"] == 0 or cov["stalls"] == 0 or cov["idle_garbage_cycles"] == 0:
                raise MachineryError(f"{name}: vacuous exploration {cov}")
            if kw["burst"] == ref.WRAP and not cov["wrapped_bursts"]:
                raise MachineryError(f"{name}: no WRAP burst wrapped")
        tot["bursts"] = len(space)
    elif name in PIPE:
        kw = PIPE[name][1]
        space = pipe_pairs(kw["dwf"], kw["dwt"])
        H.set_group(space)
        _merge(tot, ex.run(), viol, failing, f"{len(space)} pairs of reads")
        cov = H.cover_report()
        tot["bursts"] = 2 * len(space)
    elif name in PIPEW:
        kw = PIPEW[name][1]
        space = pipe_wpairs(kw["dwf"], kw["dwt"])
        H.set_group(space)
        _merge(tot, ex.run(), viol, failing, f"{len(space)} pairs of writes")
        cov = H.cover_report()
        tot["bursts"] = 2 * len(space)
    else:
        kw = CONV[name][1]
        space = conv_bursts(kw["cls"], kw["dwf"], kw["dwt"], kw["klass"], tier, kw.get("part"))
        if not space:
            raise MachineryError(f"{name}: empty burst space")
        clean = []
        for b in space:
            H.set_group([b])
            res = ex.run()
            label = f"{ref.BURST_NAMES[b[3]]} addr={b[0]:#x} len={b[1]} size={b[2]}"
            _merge(tot, res, viol, failing, label)
            if not res.violations:
                clean.append(label)
        cov = H.cover_report()
        cov["clean_bursts"] = len(clean)
        cov["failing_bursts"] = len(space) - len(clean)
        if failing:
            cov["failing_by_rule"] = {r: dict(count=len(l), first=l[:4]) for r, l in sorted(failing.items())}
            cov["clean_examples"] = clean[:12]
        if not viol and not cov["finished"]:
            raise MachineryError(f"{name}: no transaction ever finished")
        tot["bursts"] = len(space)
    tot["cover"] = cov
    tot["violations"] = list(viol.values())
    for v in tot["violations"]:
        cyc = [tuple_deep(c) for c in v["cycle"]] if v.get("cycle") else None
        q = [q for q in H.live_queries if q[0] == v["rule"]][0] if cyc else None
        rp = replay_stock(f, [tuple_deep(c) for c in v["trace"]], cyc, q)
        v["replayed"] = dict(reproduced=rp["reproduced"], path=rp["path"], cycles=rp["cycles"])
        if not rp["reproduced"]:
            raise MachineryError(f"{name}: violation {v['rule']} does not reproduce on the stock simulator: {rp}")
    return tot


def extra_coverage(results):
    """evidence: number of bursts really explored and the measured status of every converter burst class"""
    bursts = sum(int(r.get("bursts", 0) or 0) for r in results)
    b2b = sum(int(r.get("bursts", 0) or 0) for r in results if str(r.get("cfg", "")).startswith("AXIBurst2Beat"))
    classes = {}
    for r in results:
        c = r.get("cover") or {}
        if "clean_bursts" in c:
            classes[r["cfg"]] = dict(clean=c["clean_bursts"], failing=c["failing_bursts"],
                                     rules={k: v["count"] for k, v in (c.get("failing_by_rule") or {}).items()})
    return dict(bursts_explored=bursts, burst2beat_bursts=b2b, converter_burst_classes=classes)


def replay(rec):
    f = mk(rec["cfg"])
    cyc = [tuple_deep(c) for c in rec["cycle"]] if rec.get("cycle") else None
    q = [q for q in f().live_queries if q[0] == rec["rule"]][0] if cyc else None
    rp = replay_stock(f, [tuple_deep(c) for c in rec["trace"]], cyc, q)
    return dict(cfg=rec["cfg"], rule=rec["rule"], reproduced=rp["reproduced"], err=rp["err"], path=rp["path"], cycles=rp["cycles"])
