"""C10 reference: the AMBA AXI address equations (IHI 0022, "Burst address" / "Pseudocode description of the transfers"),
written from the specification text with the specification's variable names.  Shares nothing with
litex/soc/interconnect/axi/axi_full.py (no running offset, no wrap mask): every beat is computed in closed form."""

FIXED, INCR, WRAP, RESERVED = 0, 1, 2, 3
BURST_NAMES = {FIXED: "FIXED", INCR: "INCR", WRAP: "WRAP", RESERVED: "RESERVED"}


def INT(x, y):
    """INT(x / y) of the specification: rounded down quotient of two non-negative integers."""
    return x // y


def address_n(Start_Address, AxLEN, AxSIZE, AxBURST, N):
    """Address of transfer N (1-based) of a burst."""
    Number_Bytes = 1 << AxSIZE
    Burst_Length = AxLEN + 1
    Aligned_Address = INT(Start_Address, Number_Bytes) * Number_Bytes
    if N == 1 or AxBURST == FIXED:
        return Start_Address
    Address_N = Aligned_Address + (N - 1) * Number_Bytes
    if AxBURST == INCR:
        return Address_N
    if AxBURST == WRAP:
        Wrap_Boundary = INT(Start_Address, Number_Bytes * Burst_Length) * (Number_Bytes * Burst_Length)
        if Address_N >= Wrap_Boundary + Number_Bytes * Burst_Length:
            # "Address_N = Start_Address + ((N - 1) x Number_Bytes) - (Number_Bytes x Burst_Length)" after the wrap
            return Start_Address + (N - 1) * Number_Bytes - Number_Bytes * Burst_Length
        return Address_N
    raise ValueError("reserved burst type")


def beat_addresses(addr, length, size, burst):
    return [address_n(addr, length, size, burst, n) for n in range(1, length + 2)]


def byte_lanes(Start_Address, AxLEN, AxSIZE, AxBURST, N, Data_Bus_Bytes):
    """(Address_N, Lower_Byte_Lane, Upper_Byte_Lane) of transfer N (1-based)."""
    Number_Bytes = 1 << AxSIZE
    Aligned_Address = INT(Start_Address, Number_Bytes) * Number_Bytes
    Address_N = address_n(Start_Address, AxLEN, AxSIZE, AxBURST, N)
    if N == 1 or AxBURST == FIXED:
        Lower_Byte_Lane = Start_Address - INT(Start_Address, Data_Bus_Bytes) * Data_Bus_Bytes
        Upper_Byte_Lane = Aligned_Address + (Number_Bytes - 1) - INT(Start_Address, Data_Bus_Bytes) * Data_Bus_Bytes
    else:
        Lower_Byte_Lane = Address_N - INT(Address_N, Data_Bus_Bytes) * Data_Bus_Bytes
        Upper_Byte_Lane = Lower_Byte_Lane + Number_Bytes - 1
    return Address_N, Lower_Byte_Lane, Upper_Byte_Lane


def beat_bytes(addr, length, size, burst, bus_bytes):
    """per transfer: list of (byte address, lane) of the bytes the transfer may carry, ascending"""
    out = []
    for n in range(1, length + 2):
        a, lo, up = byte_lanes(addr, length, size, burst, n, bus_bytes)
        word = INT(a, bus_bytes) * bus_bytes
        out.append([(word + lane, lane) for lane in range(lo, up + 1)])
    return out


def illegal(addr, length, size, burst, bus_bytes, addr_bits=32, len_bits=8):
    """None if the burst is one the specification allows on a bus of `bus_bytes` bytes, else the reason."""
    nb = 1 << size
    if burst == RESERVED:
        return "reserved burst type"
    if not 0 <= length < (1 << len_bits):
        return "len out of range"
    if nb > bus_bytes:
        return f"size {size} ({nb} bytes) wider than the {bus_bytes}-byte bus"
    if burst == WRAP:
        if length not in (1, 3, 7, 15):
            return f"WRAP burst of {length+1} transfers (must be 2, 4, 8 or 16)"
        if addr % nb:
            return "WRAP burst with a start address that is not aligned to the transfer size"
    if burst == INCR:
        aligned = INT(addr, nb) * nb
        if INT(aligned + (length + 1) * nb - 1, 4096) != INT(addr, 4096):
            return "INCR burst crosses a 4 KiB boundary"
    if addr >= (1 << addr_bits):
        return "address out of range"
    return None
