"""C14 helper: builds one real, finalised `SoCCore(cpu_type=None)` per configuration with a test-bench Wishbone master,
collects the *hardware-side* truth (which CSR object / memory / interrupt line carries which published name) by its own
walk over the SoC's attributes, and offers two simulation back-ends that execute the same primitive scripts:

* `FastBench`  - fsmc.design.Design (the fragment `litex.gen.sim.core.Simulator.__init__` produces, compiled stepper);
                 every k-th clock edge is re-executed on LiteX's own Evaluator and compared on all signals (conformance).
* `stock_run`  - plain `litex.gen.sim.run_simulation` with a generator (used to confirm every violation and by replay()).
"""
import fsmc  # noqa: F401  (tracer shim, /repo on sys.path)
import sys

from migen import *
from migen.fhdl.specials import Memory

from litex.gen import LiteXModule
from litex.build.generic_platform import GenericPlatform
from litex.soc.integration.soc import SoCError
from litex.soc.integration.soc_core import SoCCore
from litex.soc.interconnect import wishbone
from litex.soc.interconnect.csr import CSR, CSRStorage, CSRStatus, CSRField, CSRConstant
from litex.soc.interconnect.csr_eventmanager import EventManager, EventSourceLevel, EventSourcePulse

from fsmc.design import Design, MachineryError

HANG_CYCLES = 3000     # a bus access that is not terminated after that many cycles is a hang
CONFORM_EVERY = 193    # every k-th clock edge of the fast stepper is re-executed on the real Evaluator


# ------------------------------------------------------------------------------------------------------------------
# test-bench peripherals
# ------------------------------------------------------------------------------------------------------------------
class TBPeriph(LiteXModule):
    """A peripheral made of a list of items:
       ("st", name, size)                 CSRStorage
       ("sta", name, size)                CSRStorage(atomic_write=True)
       ("ro", name, size)                 CSRStatus (status line left to the test bench)
       ("stf", name, [(fname, size, offset), ...])   CSRStorage with fields
       ("rof", name, [(fname, size, offset), ...])   CSRStatus with fields
       ("mem", name, width, depth, read_only)        CSR-mapped memory
       ("const", name, value)             CSRConstant
       ("ev", [source names])             EventManager with level sources (trigger lines left to the test bench)
    """
    def __init__(self, items):
        self.items = items
        self.mems = []
        for it in items:
            k = it[0]
            if k == "st":
                setattr(self, "_" + it[1], CSRStorage(it[2], name=it[1]))
            elif k == "sta":
                setattr(self, "_" + it[1], CSRStorage(it[2], atomic_write=True, name=it[1]))
            elif k == "ro":
                setattr(self, "_" + it[1], CSRStatus(it[2], name=it[1]))
            elif k == "stf":
                setattr(self, "_" + it[1], CSRStorage(name=it[1], fields=[CSRField(f, size=s, offset=o) for f, s, o in it[2]]))
            elif k == "rof":
                setattr(self, "_" + it[1], CSRStatus(name=it[1], fields=[CSRField(f, size=s, offset=o) for f, s, o in it[2]]))
            elif k == "mem":
                _, name, width, depth, ro = it
                mem = Memory(width, depth, init=[((0x5B + 0x25*i) * 0x01010101) & (2**width - 1) | 1 for i in range(depth)], name=name)
                setattr(self, name, mem)
                self.mems.append((ro, mem))
            elif k == "const":
                setattr(self, "_" + it[1], CSRConstant(it[2], name=it[1]))
            elif k == "ev":
                self.ev = EventManager()
                for s in it[1]:
                    setattr(self.ev, s, EventSourceLevel(name=s))
                self.ev.finalize()
            else:
                raise ValueError(k)

    def get_memories(self):
        return list(self.mems)


# Peripheral menus.  Every menu is a dict:
#   ctrl/timer : stock SoCController / Timer
#   periphs    : [(module name, items, fixed csr location or None, how the location is fixed: "map"|"add"|None, irq)]
#                irq: None | "auto" | int (fixed interrupt number)
#   rams       : [(name, origin, size, mode)] extra bus memories (besides the 0x100-byte "sram")
#   roms       : [(name, origin, size, image length, endianness)]  ROMs initialised through get_mem_data
ALL_SIZES = [("st", "r1", 1), ("st", "r8", 8), ("st", "r9", 9), ("st", "r32", 32), ("st", "r33", 33), ("st", "r64", 64),
             ("st", "r65", 65), ("ro", "s8", 8), ("ro", "s33", 33), ("ro", "s65", 65)]
MENUS = {
    # every register width of the DESIGN list, stock controller + timer, automatic locations
    "sizes": dict(ctrl=True, timer=True, timer_irq=False,
                  periphs=[("pa", ALL_SIZES, None, None, None)], rams=[], roms=[]),
    # atomic registers, fields (one of them crossing a 32-bit word), constants, no controller
    "atomic": dict(ctrl=False, timer=False, timer_irq=False,
                   periphs=[("pb", [("sta", "a16", 16), ("sta", "a33", 33), ("sta", "a64", 64), ("st", "n40", 40),
                                    ("stf", "f32", [("fa", 1, 0), ("fb", 3, 4), ("fc", 8, 8), ("fd", 5, 27)]),
                                    ("stf", "f7", [("ga", 2, 1), ("gb", 3, 4)]),
                                    ("stf", "f40", [("ha", 4, 0), ("hb", 8, 28), ("hc", 2, 38)]),
                                    ("rof", "g32", [("ia", 1, 0), ("ib", 6, 9), ("ic", 4, 28)]),
                                    ("rof", "g12", [("ja", 3, 0), ("jb", 5, 7)]),
                                    ("const", "k0", 0x1234), ("const", "k1", 7)], None, None, None),
                            # a second bank: the interloper of the interrupted-write tests
                            ("ph", [("st", "x8", 8), ("st", "x40", 40), ("sta", "y40", 40)], None, None, None)],
                   rams=[], roms=[]),
    # CSR-mapped memories (8-bit rw, 32-bit read-only, 32-bit rw = wider than an 8-bit CSR bus), fixed CSR locations (csr_map and add_csr), interrupts (fixed and automatic numbers)
    "memfix": dict(ctrl=True, timer=True, timer_irq=True,
                   periphs=[("pc", [("mem", "buf", 8, 12, False), ("mem", "lut", 32, 6, True), ("mem", "wbuf", 32, 4, False),
                                    ("st", "r16", 16), ("ro", "s16", 16)], 5, "map", None),
                            ("pd", [("st", "r24", 24), ("ro", "s40", 40), ("ev", ["e0", "e1"])], 3, "add", 7),
                            ("pe", [("st", "r8", 8), ("ev", ["e0"])], None, None, "auto")],
                   rams=[], roms=[]),
    # nothing at CSR location 0: every bank has a fixed location > 0
    "loc0free": dict(ctrl=False, timer=True, timer_irq=True, timer_loc=2, extra_map={"pf_buf": 7, "pf_hbuf": 5},
                     periphs=[("pf", [("st", "r32", 32), ("st", "r48", 48), ("ro", "s8", 8), ("mem", "buf", 8, 8, False),
                                      ("mem", "hbuf", 16, 4, False)], 6, "map", None),
                              ("pg", [("st", "r12", 12), ("ev", ["e0"])], 12, "add", 3)],      # a location in the upper part of the CSR space
                     rams=[], roms=[]),
    # several instances, adjacent / non power-of-two bus memories, an initialised ROM (end-to-end image check)
    "multi": dict(ctrl=True, timer=True, timer_irq=False,
                  periphs=[("p0", [("st", "r8", 8), ("st", "r64", 64), ("ro", "s32", 32)], None, None, None),
                           ("p1", [("st", "r8", 8), ("st", "r64", 64), ("ro", "s32", 32)], None, None, None),
                           ("p2", [("st", "r8", 8), ("sta", "a64", 64), ("ro", "s32", 32)], None, None, None),
                           ("p3", [("st", "r33", 33)], None, None, None),
                           ("p4", [("st", "r1", 1)], None, None, None)],
                  # ram0/rama: an automatically allocated region right after a non power-of-two one (whose decoder window is
                  # rounded up); "lo" = origin 0, only built when the CSR region is based elsewhere
                  rams=[("ram2", 0x01000100, 0x100, "rwx"), ("main_ram", 0x40000000, 0x180, "rwx"),
                        ("ram0", "lo", 0x180, "rwx"), ("rama", None, 0x80, "rwx")],
                  roms=[("rom", 0x02000000, 0x40, 17, "little"), ("rom2", 0x02000100, 0x20, 13, "big")]),
    # boundary of the CSR location range: a bank pinned at the LAST legal location (must answer at its published addresses) ...
    "toploc": dict(ctrl=True, timer=False, timer_irq=False,
                   periphs=[("pt", [("st", "r8", 8), ("st", "r33", 33), ("ro", "s16", 16), ("st", "r32", 32)], "top", "add", None)],
                   rams=[], roms=[]),
    # ... and one pinned at the first location PAST the range (n_locs): soc.py has to refuse it; if it is built all the same, its
    # published addresses are checked like any other bank's
    "overloc": dict(ctrl=True, timer=False, timer_irq=False, expect_reject=True,
                    periphs=[("pt", [("st", "r8", 8), ("st", "r33", 33), ("ro", "s16", 16), ("st", "r32", 32)], "over", "add", None)],
                    rams=[], roms=[]),
}
MENU_ORDER = ["sizes", "atomic", "memfix", "loc0free", "multi"]
EDGE_MENUS = ["toploc", "overloc"]


class Rejected(Exception):
    """the SoC refused the configuration (SoCError) - the required outcome for menus with expect_reject"""


def rom_image_bytes(n):
    return bytes((0x31 + 0x17 * i) & 0xFF for i in range(n))


# ------------------------------------------------------------------------------------------------------------------
# SoC construction
# ------------------------------------------------------------------------------------------------------------------
class Built:
    pass


def build(std, bdw, ic, cdw, paging, ordering, aw, base, menu, tmpdir=None):
    """Returns a Built with the finalised SoC, the test-bench master and the hardware-side truth."""
    M = MENUS[menu]
    fixed_map = {n: loc for n, _, loc, how, _ in M["periphs"] if how == "map"}
    if M.get("timer_loc") is not None:
        fixed_map["timer0"] = M["timer_loc"]
    fixed_map.update(M.get("extra_map", {}))
    cls = type("TBSoC", (SoCCore,), dict(
        csr_map=dict(fixed_map),
        interrupt_map={},
        mem_map={"csr": base, "rom": 0x02000000, "sram": 0x01000000, "main_ram": 0x40000000},
    ))
    stderr = sys.stderr
    try:
        platform = GenericPlatform("", io=[])
        soc = cls(platform, clk_freq=int(1e6), cpu_type=None,
                  bus_standard=std, bus_data_width=bdw, bus_interconnect=ic, bus_timeout=1024,
                  csr_data_width=cdw, csr_address_width=aw, csr_paging=paging, csr_ordering=ordering,
                  integrated_rom_size=0, integrated_sram_size=0x100, integrated_main_ram_size=0,
                  with_uart=False, with_timer=False, with_ctrl=M["ctrl"], ident="")
        # interrupt lines: CPUNone has none; give it a 32-bit vector so that SoC.finalize wires and publishes numbers
        has_irq = M["timer_irq"] or any(irq is not None for *_, irq in M["periphs"])
        if has_irq:
            soc.cpu.interrupt = Signal(32, name="tb_interrupt")
            soc.irq.enable()
        for name, origin, size, mode in M["rams"]:
            if base == 0x0 and name in ("ram0", "rama"):
                continue   # the CSR region is only added at finalize: an automatic allocation would take its place at 0
            if origin == "lo":
                origin = 0x0
            soc.add_ram(name, origin=origin, size=size, mode=mode)
        images = {}
        for rname, origin, size, n, endian in M["roms"]:
            from litex.soc.integration.common import get_mem_data
            import tempfile, os
            data = rom_image_bytes(n)
            fd, fn = tempfile.mkstemp(prefix="c14rom", dir=tmpdir)
            try:
                os.write(fd, data)
                os.close(fd)
                words = get_mem_data(fn, data_width=bdw, endianness=endian)
            finally:
                os.unlink(fn)
            soc.add_rom(rname, origin=origin, size=size, contents=words)
            images[rname] = (data, endian)
        if M["timer"]:
            if M["timer_irq"]:
                soc.add_timer("timer0")
            else:
                en, soc.irq.enabled = soc.irq.enabled, False
                soc.add_timer("timer0")
                soc.irq.enabled = en
        periphs = {}
        for name, items, loc, how, irq in M["periphs"]:
            p = TBPeriph(items)
            soc.add_module(name=name, module=p)
            periphs[name] = p
            if how == "add":
                if loc == "top":
                    loc = soc.csr.n_locs - 1
                elif loc == "over":
                    loc = soc.csr.n_locs
                soc.add_csr(name, loc)
            if irq == "auto":
                soc.irq.add(name, use_loc_if_exists=True)
            elif irq is not None:
                soc.irq.add(name, irq)
        m = wishbone.Interface(data_width=32, address_width=32, addressing="word")
        soc.bus.add_master("tb", m)
        soc.finalize()
    except SoCError:
        if M.get("expect_reject"):
            raise Rejected()
        raise
    finally:
        if sys.stderr is None:
            sys.stderr = stderr
    b = Built()
    b.soc, b.m, b.periphs, b.menu, b.image = soc, m, periphs, M, images
    b.cdw, b.bdw, b.ordering, b.base, b.paging, b.aw = cdw, bdw, ordering, base, paging, aw
    collect_truth(b)
    return b


class Reg:
    """Hardware-side description of one register, found by walking the SoC (not taken from csr_regions)."""
    __slots__ = ("pub", "module", "csr", "kind", "size", "atomic", "path", "wpath", "fields", "mine")


def collect_truth(b):
    """Walks the SoC's attributes: module name + CSR name -> CSR object; memories; interrupt sources."""
    soc = b.soc
    regs, mems, consts, irqs = {}, {}, {}, {}
    for mname, obj in sorted(vars(soc).items()):
        if mname.startswith("_") or mname in ("csr_bankarray", "csr_interconnect", "csr", "bus", "irq", "cpu"):
            continue
        if not hasattr(obj, "get_csrs"):
            continue
        for c in obj.get_csrs():
            r = Reg()
            r.pub, r.module, r.csr, r.size = mname + "_" + c.name, mname, c, c.size
            r.mine = mname in b.periphs
            r.atomic = bool(getattr(c, "atomic_write", False))
            r.fields = []
            if isinstance(c, CSRStorage):
                r.kind, r.path, r.wpath = "storage", ("reg", r.pub, "storage"), ("reg", r.pub, "storage")
            elif isinstance(c, CSRStatus):
                r.kind, r.path = "status", ("reg", r.pub, "status")
                r.wpath = ("reg", r.pub, "r") if hasattr(c, "r") else None
            elif isinstance(c, CSR):
                r.kind, r.path, r.wpath = "raw", ("reg", r.pub, "w"), None
            else:
                continue
            if hasattr(c, "fields"):
                for f in c.fields.fields:
                    r.fields.append((f.name, f.offset, f.size))
            regs[r.pub] = r
        if hasattr(obj, "get_memories"):
            for mm in obj.get_memories():
                ro, mem = mm if isinstance(mm, tuple) else (False, mm)
                mems[mname + "_" + mem.name_override] = (mem, ro)
        if hasattr(obj, "get_constants"):
            for k in obj.get_constants():
                consts[(mname + "_" + k.name).upper()] = k.value.value
        ev = getattr(obj, "ev", None)
        if isinstance(ev, EventManager):
            irqs[mname] = ev
    b.regs, b.csrmems, b.csrconsts, b.evs = regs, mems, consts, irqs
    # bus memories: name -> Memory of the slave the SoC attached under that name
    b.busmems = {}
    for name in soc.bus.regions:
        mod = getattr(soc, name, None)
        if mod is not None and isinstance(getattr(mod, "mem", None), Memory):
            b.busmems[name] = mod.mem


def resolve(b, path):
    """path -> Signal (or (Memory, index))."""
    k = path[0]
    if k == "reg":
        return getattr(b.regs[path[1]].csr, path[2])
    if k == "field":
        return getattr(b.regs[path[1]].csr.fields, path[2])
    if k == "csrmem":
        return (b.csrmems[path[1]][0], path[2])
    if k == "busmem":
        return (b.busmems[path[1]], path[2])
    if k == "irq":
        return b.soc.cpu.interrupt
    if k == "trig":
        return getattr(b.evs[path[1]], path[2]).trigger
    raise KeyError(path)


def arch_paths(b):
    """The architectural state compared around every write: every CSRStorage.storage, the write latch `r` of writable
    CSRStatus registers, every word of every CSR-mapped memory and of every bus memory."""
    out = []
    for n, r in sorted(b.regs.items()):
        if r.kind == "storage":
            out.append(("reg", n, "storage"))
        elif r.wpath is not None:
            out.append(r.wpath)
    for n, (mem, ro) in sorted(b.csrmems.items()):
        out += [("csrmem", n, i) for i in range(mem.depth)]
    for n, mem in sorted(b.busmems.items()):
        out += [("busmem", n, i) for i in range(mem.depth)]
    return out


# ------------------------------------------------------------------------------------------------------------------
# primitive scripts:  ("set", path, value) ("w", addr, data) ("r", addr) ("idle", n) ("snap",) ("get", path)
# result: dict(reads=[...], snaps=[tuple,...], gets=[...], acc=[(kind, cycles)...])
#         a read/write result is ("ok", data) | ("err", data) | ("hang", None)
# ------------------------------------------------------------------------------------------------------------------
class FastBench:
    def __init__(self, b):
        self.b = b
        self.D = D = Design(b.soc)
        self.fs = fs = D.fs
        m = b.m
        self.I = {k: D.i(getattr(m, k)) for k in ("adr", "dat_w", "dat_r", "sel", "cyc", "stb", "we", "ack", "err")}
        self.paths = arch_paths(b)
        self.aidx = [self.idx(p) for p in self.paths]
        self.ncyc = 0
        self.conformed = 0
        self.dead = False
        fs.v[self.I["sel"]] = 0xF
        fs.settle()

    def idx(self, path):
        s = resolve(self.b, path)
        if isinstance(s, tuple):
            mem, i = s
            arr = self.D.sim.evaluator.replaced_memories.get(mem)
            if arr is None:
                raise MachineryError(f"memory of {path} is not part of the simulated fragment")
            return self.D.i(arr[i])
        return self.D.i(s)

    def tick(self):
        fs = self.fs
        self.ncyc += 1
        if self.ncyc % CONFORM_EVERY == 0:
            d = self.D.state()
            vpre = list(fs.v)
            fs.tick()
            self.D.conform(d, vpre, list(fs.v), ("sys",))
            self.conformed += 1
        else:
            fs.tick()

    def access(self, we, addr, data=0):
        v, I = self.fs.v, self.I
        v[I["adr"]] = (addr >> 2) & 0xFFFFFFFF
        v[I["dat_w"]] = data & 0xFFFFFFFF
        v[I["we"]] = we
        v[I["sel"]] = 0xF
        v[I["cyc"]] = 1
        v[I["stb"]] = 1
        self.fs.settle()
        n = 0
        while not (v[I["ack"]] or v[I["err"]]):
            self.tick()
            n += 1
            if n > HANG_CYCLES:
                self.dead = True
                return ("hang", None)
        res = ("err" if v[I["err"]] else "ok", v[I["dat_r"]])
        self.tick()
        v[I["cyc"]] = 0
        v[I["stb"]] = 0
        self.fs.settle()
        self.tick()
        return res

    def snap(self):
        v = self.fs.v
        return tuple([v[i] for i in self.aidx])

    def run(self, script):
        out = dict(reads=[], snaps=[], gets=[])
        for st in script:
            k = st[0]
            if k == "w":
                out["reads"].append(self.access(1, st[1], st[2]))
            elif k == "r":
                out["reads"].append(self.access(0, st[1]))
            elif k == "set":
                i = self.idx(st[1])
                sig = self.D.sigs[i]
                if sig in self.D.comb_targets or sig in self.D.sync_targets:
                    raise MachineryError(f"test bench drives {st[1]} which the design drives too")
                self.fs.v[i] = st[2]
                self.fs.settle()
            elif k == "idle":
                for _ in range(st[1]):
                    self.tick()
            elif k == "snap":
                out["snaps"].append(self.snap())
            elif k == "get":
                out["gets"].append(self.fs.v[self.idx(st[1])])
            else:
                raise ValueError(st)
            if self.dead:
                break
        return out


def stock_run(b, script):
    """The same script on LiteX's own simulator, from reset."""
    from litex.gen.sim import run_simulation
    m = b.m
    paths = arch_paths(b)

    def sig(path):
        s = resolve(b, path)
        if isinstance(s, tuple):
            return s[0][s[1]]
        return s
    asigs = [sig(p) for p in paths]
    out = dict(reads=[], snaps=[], gets=[])

    def access(we, addr, data=0):
        yield m.adr.eq((addr >> 2) & 0xFFFFFFFF)
        yield m.dat_w.eq(data & 0xFFFFFFFF)
        yield m.we.eq(we)
        yield m.sel.eq(0xF)
        yield m.cyc.eq(1)
        yield m.stb.eq(1)
        yield
        n = 0
        while not ((yield m.ack) or (yield m.err)):
            yield
            n += 1
            if n > HANG_CYCLES:
                return ("hang", None)
        res = ("err" if (yield m.err) else "ok", (yield m.dat_r))
        yield m.cyc.eq(0)
        yield m.stb.eq(0)
        yield
        yield
        return res

    def tb():
        for st in script:
            k = st[0]
            if k == "w":
                r = yield from access(1, st[1], st[2])
                out["reads"].append(r)
                if r[0] == "hang":
                    return
            elif k == "r":
                r = yield from access(0, st[1])
                out["reads"].append(r)
                if r[0] == "hang":
                    return
            elif k == "set":
                yield sig(st[1]).eq(st[2])
                yield
            elif k == "idle":
                for _ in range(st[1]):
                    yield
            elif k == "snap":
                vals = []
                for s in asigs:
                    vals.append((yield s))
                out["snaps"].append(tuple(vals))
            elif k == "get":
                out["gets"].append((yield sig(st[1])))
    run_simulation(b.soc, tb())
    return out
