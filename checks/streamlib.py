"""Stream harness shared by C03 / C04 / C16 / C17: a legal producer (holds valid + token until accepted, drives
adversarial garbage while idle), a free consumer, reference models (scoreboards), the C04 stability monitor and
the liveness labels.  See DESIGN.md §2 and §4 C03/C04."""
from fsmc.explore import Harness, COOP, PROGRESS, OUTPROG
from fsmc.design import MachineryError

PENDING = 8     # edge flag: the reference model holds a complete pending output before this cycle


def flat_fields(rec, prefix=""):
    """[(name, width, Signal)] of a Record in raw_bits() order"""
    out = []
    for f in rec.layout:
        name = f[0]
        sub = getattr(rec, name)
        if hasattr(sub, "layout"):
            out += flat_fields(sub, prefix + name + ".")
        else:
            out.append((prefix + name, len(sub), sub))
    return out


class Port:
    """index view of one stream Endpoint"""
    def __init__(self, D, ep):
        self.ep = ep
        self.valid, self.ready = D.i(ep.valid), D.i(ep.ready)
        self.first, self.last = D.i(ep.first), D.i(ep.last)
        self.pay = []     # (name, width, idx, offset in payload raw bits)
        off = 0
        for n, w, s in flat_fields(ep.payload):
            self.pay.append((n, w, D.i(s), off))
            off += w
        self.paybits = off
        self.par = []
        off = 0
        for n, w, s in flat_fields(ep.param):
            self.par.append((n, w, D.i(s), off))
            off += w
        self.parbits = off
        self.used_last = D.mentioned(ep.last) or D.mentioned(ep.first)

    def drive_token(self, v, raw, first, last, praw):
        v[self.valid] = 1
        v[self.first] = first
        v[self.last] = last
        for n, w, i, off in self.pay:
            v[i] = (raw >> off) & ((1 << w) - 1)
        for n, w, i, off in self.par:
            v[i] = (praw >> off) & ((1 << w) - 1)

    def drive_idle(self, v, g):
        v[self.valid] = 0
        v[self.first] = g
        v[self.last] = g
        for n, w, i, off in self.pay:
            v[i] = ((1 << w) - 1) if g else 0
        for n, w, i, off in self.par:
            v[i] = ((1 << w) - 1) if g else 0

    def read(self, v):
        raw = 0
        for n, w, i, off in self.pay:
            raw |= (v[i] & ((1 << w) - 1)) << off
        praw = 0
        for n, w, i, off in self.par:
            praw |= (v[i] & ((1 << w) - 1)) << off
        return (raw, v[self.first], v[self.last], praw)


_PAR_BYTES = (0x1D, 0xA2, 0x47, 0xE8, 0x3B, 0xC4, 0x59, 0x96)


def par_raw(par, bits):
    """param index -> raw param bits.  Index 0: the low `bits` bits of the byte sequence 1D A2 47 E8 .. (every byte and every
    nibble different, so byte swaps, exchanged fields and exchanged halves change the value; 01 for two bits), index 1: its
    complement.  Both differ from the all-zeros / all-ones idle patterns when bits >= 2."""
    if bits == 0:
        return 0
    pat = 0
    for k in range((bits + 7)//8):
        pat |= _PAR_BYTES[k % 8] << (8*k)
    pat &= (1 << bits) - 1
    if par & 1:
        pat ^= (1 << bits) - 1
    return pat


# ---------------------------------------------------------------------------------------------------
# Reference models.  Expected output = (raw, rawmask, first, last, praw) ; first/last None = not compared.
# A model is a Mealy machine over monitor state `mon`:
#     offer(mon, tok)      -- called once per token, in the first cycle it is offered (the producer holds it)
#     out(mon, got, ...)   -- called on every source handshake
# Pushing on *offer* instead of on the sink handshake is what makes the oracle independent of whether an element
# forwards combinationally / emits chunks of a still-unaccepted token (down-converters, Unpack); a token that is
# offered and never accepted is a liveness violation, caught on the graph.
# ---------------------------------------------------------------------------------------------------
class QueueModel:
    capacity = 8
    def init(self):
        return ((), ())           # (accumulator, queue of expected outputs)
    def absorb(self, acc, tok):
        """-> (acc2, [expected outputs])"""
        raise NotImplementedError
    def offer(self, mon, tok):
        acc, q = mon
        acc, outs = self.absorb(acc, tok)
        q = q + tuple(outs)
        if len(q) > self.capacity:
            return (acc, q), ("order.capacity", f"{len(q)} outputs pending: more than the element can hold (loss / stall)")
        return (acc, q), None
    def out(self, mon, got):
        acc, q = mon
        if not q:
            return mon, ("dup.invented", f"source handshake {got} with nothing pending (duplication / invention)")
        raw, mask, first, last, praw = q[0]
        graw, gfirst, glast, gpraw = got
        if (graw ^ raw) & mask:
            return mon, ("data.payload", f"payload exp {raw:#x} (mask {mask:#x}) got {graw:#x}")
        if first is not None and gfirst != first:
            return mon, ("data.firstlast", f"first exp {first} got {gfirst} (last exp {last} got {glast})")
        if last is not None and glast != last:
            return mon, ("data.firstlast", f"last exp {last} got {glast}")
        if praw is not None and gpraw != praw:
            return mon, ("data.param", f"param exp {praw:#x} got {gpraw:#x}")
        return (acc, q[1:]), None
    def pending(self, mon):
        return bool(mon[1])


class Identity(QueueModel):
    def __init__(self, paybits, capacity, mapraw=None, use_last=True):
        self.mask = (1 << paybits) - 1
        self.capacity = capacity
        self.mapraw = mapraw
        self.use_last = use_last
    def absorb(self, acc, tok):
        raw, first, last, praw = tok[:4]
        mask = tok[4] if len(tok) > 4 else self.mask
        if self.mapraw:
            raw = self.mapraw(raw)
        return acc, [(raw, mask, first if self.use_last else None, last if self.use_last else None, praw)]


class Up(QueueModel):
    """ratio tokens (or fewer, flushed by `last`) -> one word; chunk i at position i (ratio-1-i when reversed).
    `place(i, raw)` -> (bits, mask) positions the i-th token inside the output word (field-wise for StrideConverter/Pack)."""
    def __init__(self, ratio, w, capacity=3, reverse=False, vtc=None, place=None, param="last"):
        self.r, self.w, self.rev, self.vtc, self.place, self.capacity = ratio, w, reverse, vtc, place, capacity
        self.param = param
    def absorb(self, acc, tok):
        tok = tok[:4]
        acc = acc + (tok,)
        raw, first, last, praw = tok
        if len(acc) == self.r or last:
            val = mask = 0
            for i, (d, f, l, p) in enumerate(acc):
                pos = self.r - 1 - i if self.rev else i
                if self.place:
                    b, m = self.place(pos, d)
                else:
                    b, m = (d & ((1 << self.w) - 1)) << (pos*self.w), ((1 << self.w) - 1) << (pos*self.w)
                val |= b
                mask |= m
            if self.vtc is not None:
                off, bits = self.vtc
                val |= len(acc) << off
                mask |= ((1 << bits) - 1) << off
            out = (val, mask, int(any(a[1] for a in acc)), int(any(a[2] for a in acc)), acc[-1][3] if self.param else None)
            return (), [out]
        return acc, []


class Down(QueueModel):
    """one word -> ratio chunks; first on chunk 0, last on the final chunk; params repeated."""
    def __init__(self, ratio, w, capacity=None, reverse=False, pick=None, vtc=None):
        self.r, self.w, self.rev, self.pick, self.vtc = ratio, w, reverse, pick, vtc
        self.capacity = capacity or 2*ratio
    def absorb(self, acc, tok):
        raw, first, last, praw = tok[:4]
        tmask = tok[4] if len(tok) > 4 else -1
        outs = []
        for i in range(self.r):
            pos = self.r - 1 - i if self.rev else i
            if self.pick:
                b, m = self.pick(pos, raw)
            else:
                b, m = (raw >> (pos*self.w)) & ((1 << self.w) - 1), (tmask >> (pos*self.w)) & ((1 << self.w) - 1)
            if self.vtc is not None:
                off, bits = self.vtc
                b |= int(i == self.r - 1) << off
                m |= ((1 << bits) - 1) << off
            outs.append((b, m, int(first and i == 0), int(last and i == self.r - 1), praw))
        return acc, outs


class Chain(QueueModel):
    """sequential composition of queue models (function composition on token sequences); intermediate tokens carry
    the mask of defined bits so that stale chunks of a partial (early-`last`) word stay don't-care downstream."""
    def __init__(self, *models, capacity=16):
        self.models = models
        self.capacity = capacity
    def init(self):
        return (tuple(m.init()[0] for m in self.models), ())
    def absorb(self, accs, tok):
        accs = list(accs)
        items = [tok]
        outs = []
        for k, m in enumerate(self.models):
            outs = []
            for t in items:
                accs[k], o = m.absorb(accs[k], t)
                outs += o
            items = [(o[0], o[2] or 0, o[3] or 0, o[4] or 0, o[1]) for o in outs]
        return tuple(accs), outs


class Bits(QueueModel):
    """Gearbox: the concatenated bit stream is re-sliced; no first/last/param."""
    def __init__(self, i_dw, o_dw, msb, capbits):
        self.i, self.o, self.msb, self.capbits = i_dw, o_dw, msb, capbits
    def init(self):
        return ((), ())
    def offer(self, mon, tok):
        acc, q = mon
        d = tok[0] & ((1 << self.i) - 1)
        bits = tuple((d >> b) & 1 for b in (reversed(range(self.i)) if self.msb else range(self.i)))
        q = q + bits
        if len(q) > self.capbits:
            return (acc, q), ("order.capacity", f"{len(q)} bits pending: more than the gearbox can hold")
        return (acc, q), None
    def out(self, mon, got):
        acc, q = mon
        if len(q) < self.o:
            return mon, ("dup.invented", "output word without enough pending input bits")
        val = 0
        for j, b in enumerate(q[:self.o]):
            val |= b << (self.o - 1 - j if self.msb else j)
        if got[0] != val:
            return mon, ("data.payload", f"gearbox word exp {val:#x} got {got[0]:#x}")
        return (acc, q[self.o:]), None
    def pending(self, mon):
        return len(mon[1]) >= self.o


# ---------------------------------------------------------------------------------------------------
class StreamHarness(Harness):
    """one sink, one source, optional free control inputs.
       env = (nid, pos, par, hold, stall, ctrl_prev, mon)"""
    live_queries = (
        ("live.deadlock", COOP, PROGRESS, (), "producer offers and consumer accepts forever, no handshake at all"),
        ("live.starve_out", COOP | PENDING, OUTPROG, (), "a complete output is pending, consumer ready forever, never delivered"),
    )

    def __init__(self, name, factory, model_factory, M=4, maxpkt=3, nparam=2, mode="ids", idbits=None,
                 ctrl=None, idle_garbage=True, cap=None, sink="sink", source="source", check_stability=True,
                 alphabet=None, coop_ctrl=None, expect_full=True, minpkt=1, mid_pause=True, idle_values=None):
        self.name = name
        self.factory = factory
        self.model_factory = model_factory
        self.M, self.maxpkt, self.nparam, self.mode = M, maxpkt, nparam, mode
        self.ctrl_spec = ctrl or []          # [(attr path, [values])]
        self.idle_garbage = idle_garbage
        self.sink_name, self.source_name = sink, source
        self.check_stability = check_stability
        self.alphabet = alphabet
        self.coop_ctrl = coop_ctrl           # ctrl tuple values considered cooperative (None: all)
        self.idbits = idbits
        self.minpkt, self.mid_pause = minpkt, mid_pause
        self.idle_values = idle_values          # extra raw payload patterns driven while idle (choice index >= 2)
        if cap:
            self.cap = cap
        self.hs = set()
        self.maxq = 0
        self.tolerant = False

    def set_tolerant(self):
        """second pass of a C04 run on a design whose data path already violates C03/C16: scoreboard errors are not fatal
        (the explorer does not extend violating transitions, so they would hide every stall behind them); only the
        monitors that do not depend on the scoreboard stay armed: stability and the handshake-level dead-lock query."""
        self.tolerant = True
        self.live_queries = tuple(q for q in self.live_queries if q[0] == "live.deadlock")

    def build(self):
        self.dut = self.factory()
        return self.dut

    def bind(self, D):
        dut = self.dut
        self.sink = Port(D, getattr(dut, self.sink_name))
        self.source = Port(D, getattr(dut, self.source_name))
        self.model = self.model_factory(self)
        self.ctrl = []
        for path, vals in self.ctrl_spec:
            o = dut
            for p in path.split("."):
                o = getattr(o, p)
            self.ctrl.append((D.i(o), list(vals)))
        self.ctrl_choices = [()]
        for i, vals in self.ctrl:
            self.ctrl_choices = [c + (x,) for c in self.ctrl_choices for x in vals]
        pb = self.sink.paybits
        if self.alphabet is None:
            idb = self.idbits or max(1, (self.M - 1).bit_length())
            rep = 0
            k = 0
            while k < pb:
                rep |= 1 << k
                k += idb
            self.alphabet = [((i * rep) & ((1 << pb) - 1)) for i in range(self.M)]
        self.use_last = self.sink.used_last
        self.nparam_eff = self.nparam if self.sink.parbits else 1

    def env_init(self):
        return (0, 0, 0, None, None, None, self.model.init())

    def choices(self, env):
        nid, pos, par, hold, stall, cprev, mon = env
        pch = []
        if hold is None:
            if self.mid_pause or pos == 0:
                pch.append(("idle", 0))
                if self.idle_garbage:
                    pch.append(("idle", 1))
                    for k in range(len(self.idle_values or ())):
                        pch.append(("idle", 2 + k))
            if not self.use_last:
                lasts = (0,)
            elif pos + 1 < self.minpkt:
                lasts = (0,)
            elif pos + 1 < self.maxpkt:
                lasts = (0, 1)
            else:
                lasts = (1,)
            ids = (nid,) if self.mode == "ids" else range(len(self.alphabet))
            for i in ids:
                for last in lasts:
                    if pos == 0:
                        for p in range(self.nparam_eff):
                            pch.append(("offer", i, last, p))
                    else:
                        pch.append(("offer", i, last, par))
        else:
            pch.append(("offer",) + hold)
        return [(p, r, c) for p in pch for r in (0, 1) for c in self.ctrl_choices]

    def drive(self, v, env, ch):
        pc, rdy, cc = ch
        nid, pos, par, hold, stall, cprev, mon = env
        if pc[0] == "idle":
            if pc[1] >= 2:
                self.sink.drive_token(v, self.idle_values[pc[1] - 2], 1, 1, 0)
                v[self.sink.valid] = 0
            else:
                self.sink.drive_idle(v, pc[1])
        else:
            _, i, last, p = pc
            first = 1 if (pos == 0 and self.use_last) else 0
            self.sink.drive_token(v, self.alphabet[i], first, last, par_raw(p, self.sink.parbits))
        v[self.source.ready] = rdy
        for (i, vals), x in zip(self.ctrl, cc):
            v[i] = x

    def observe(self, v, env, ch):
        pc, rdy, cc = ch
        nid, pos, par, hold, stall, cprev, mon = env
        S, O = self.sink, self.source
        offering = pc[0] == "offer"
        in_hs = offering and v[S.ready]
        ov = v[O.valid]
        out_hs = ov and rdy
        self.hs.add((offering, v[S.ready], ov, rdy))
        err = None
        pending = self.model.pending(mon)
        # C04 stability
        got = O.read(v)
        if self.check_stability and stall is not None and cprev == cc:
            if not ov:
                err = ("stab.valid", "source.valid withdrawn before ready")
            elif got != stall:
                err = ("stab.payload", f"source changed while valid & ~ready: {stall} -> {got}")
        stall2 = got if (ov and not rdy) else None
        tok = None
        if offering:
            _, i, last, p = pc
            first = 1 if (pos == 0 and self.use_last) else 0
            tok = (self.alphabet[i], first, last, par_raw(p, S.parbits))
            if hold is None and err is None:
                mon, err = self.model.offer(mon, tok)
                if err is not None and self.tolerant:        # scoreboard overflow: forget the oldest expectation
                    mon, err = mon[:1] + (mon[1][-self.model.capacity:],) + mon[2:], None
        if out_hs and err is None:
            mon, err = self.model.out(mon, got)
            if err is not None and self.tolerant:            # wrong / unexpected output: consume one expectation, go on
                mon, err = mon[:1] + (mon[1][1:],) + mon[2:], None
        if hasattr(self.model, "cycle") and err is None:
            mon, err = self.model.cycle(mon, v, tok, bool(in_hs), bool(out_hs), cc, self)
            if err is not None and self.tolerant:
                err = None
        if err is not None:
            return env, err, 0
        if len(mon[1]) > self.maxq:
            self.maxq = len(mon[1])
        # producer bookkeeping
        if not offering:
            nid2, pos2, par2, hold2 = nid, pos, par, None
        elif in_hs:
            nxt = (nid + 1) % self.M if self.mode == "ids" else 0
            if pc[2] or not self.use_last:
                nid2, pos2, par2, hold2 = nxt, 0, 0, None
            else:
                nid2, pos2, par2, hold2 = nxt, pos + 1, pc[3], None
        else:
            nid2, pos2, par2, hold2 = nid, pos, pc[3], pc[1:]
        flags = 0
        # the consumer co-operates when it accepts what it is shown: ready high, or (consumers that raise ready only after they have
        # seen valid, e.g. `ready = valid`) nothing shown to it - an element may not wait for ready before it raises valid
        if offering and (rdy or not ov) and (self.coop_ctrl is None or cc in self.coop_ctrl):
            flags |= COOP
        if in_hs or out_hs:
            flags |= PROGRESS
        if out_hs:
            flags |= OUTPROG
        if pending:
            flags |= PENDING
        return (nid2, pos2, par2, hold2, stall2, cc, mon), None, flags

    def describe(self, ch):
        return ch

    def cover_report(self):
        return dict(handshake_patterns=len(self.hs), max_pending=self.maxq)

    def vacuity(self):
        if len(self.hs) < 4:
            return f"only {len(self.hs)} handshake patterns observed"
        return None


# ---------------------------------------------------------------------------------------------------
# several producers / several consumers (Multiplexer, Demultiplexer, Gate, packet.Arbiter, packet.Dispatcher)
# ---------------------------------------------------------------------------------------------------
import itertools

WAITBIT = 256      # WAITBIT << i : producer i is offering in this step;  SERVED << i : it completed a handshake
SERVEDBIT = 4096


class MultiStreamHarness(Harness):
    """env = (producers ((nid, pos, hold), ...), stall snapshots per source, previous ctrl, oracle state).
    Token payload = (producer index << idbits) | sequence id; no params.  `oracle` is an object with
    init() and cycle(mon, offers, in_hs, outs, out_hs, cc, H) -> (mon2, err)."""

    def __init__(self, name, factory, sinks, sources, oracle, idbits=2, maxpkt=2, ctrl=None, coop_ctrl=None,
                 idle_garbage=True, check_stability=True, cap=None, starvation=True, liveness=True):
        self.name, self.factory = name, factory
        self.sink_names, self.source_names = sinks, sources
        self.oracle = oracle
        self.idbits, self.M, self.maxpkt = idbits, 1 << idbits, maxpkt
        self.ctrl_spec = ctrl or []
        self.coop_ctrl = coop_ctrl
        self.idle_garbage = idle_garbage
        self.check_stability = check_stability
        if cap:
            self.cap = cap
        self.hs = set()
        q = [("live.deadlock", COOP, PROGRESS, (), "all parties cooperate forever, no handshake at all")]
        if starvation:
            for i in range(len(sinks)):
                q.append((f"live.starve.m{i}", COOP | (WAITBIT << i), SERVEDBIT << i, (),
                          f"producer {i} offers forever and is never served although everybody cooperates"))
        self.live_queries = tuple(q) if liveness else ()
        self.tolerant = False

    def set_tolerant(self):
        """see StreamHarness.set_tolerant: routing-oracle errors are not fatal, stability and the liveness queries (which
        only use handshakes here) stay armed."""
        self.tolerant = True

    def build(self):
        self.dut = self.factory()
        return self.dut

    def _get(self, path):
        o = self.dut
        for p in path.split("."):
            o = getattr(o, p)
        return o

    def bind(self, D):
        self.sinks = [Port(D, self._get(n)) for n in self.sink_names]
        self.sources = [Port(D, self._get(n)) for n in self.source_names]
        self.ctrl = [(D.i(self._get(path)), list(vals)) for path, vals in self.ctrl_spec]
        self.ctrl_choices = [()]
        for i, vals in self.ctrl:
            self.ctrl_choices = [c + (x,) for c in self.ctrl_choices for x in vals]
        self.ready_choices = list(itertools.product((0, 1), repeat=len(self.sources)))

    def env_init(self):
        return (tuple((0, 0, None) for _ in self.sinks), tuple(None for _ in self.sources), None, self.oracle.init())

    def raw(self, i, nid):
        return (i << self.idbits) | nid

    def choices(self, env):
        prods = env[0]
        per = []
        for i, (nid, pos, hold) in enumerate(prods):
            if hold is not None:
                per.append([("offer",) + hold])
            else:
                c = [("idle", 0)]
                if self.idle_garbage:
                    c.append(("idle", 1))
                lasts = (0, 1) if pos + 1 < self.maxpkt else (1,)
                c += [("offer", nid, l) for l in lasts]
                per.append(c)
        return [(pc, r, c) for pc in itertools.product(*per) for r in self.ready_choices for c in self.ctrl_choices]

    def drive(self, v, env, ch):
        pcs, rdys, cc = ch
        for i, (P, pc) in enumerate(zip(self.sinks, pcs)):
            if pc[0] == "idle":
                P.drive_idle(v, pc[1])
            else:
                P.drive_token(v, self.raw(i, pc[1]), 1 if env[0][i][1] == 0 else 0, pc[2], 0)
        for P, r in zip(self.sources, rdys):
            v[P.ready] = r
        for (i, vals), x in zip(self.ctrl, cc):
            v[i] = x

    def observe(self, v, env, ch):
        pcs, rdys, cc = ch
        prods, stalls, cprev, mon = env
        offers, in_hs = [], []
        for i, (P, pc) in enumerate(zip(self.sinks, pcs)):
            if pc[0] == "offer":
                offers.append((self.raw(i, pc[1]), 1 if prods[i][1] == 0 else 0, pc[2], 0))
                in_hs.append(bool(v[P.ready]))
            else:
                offers.append(None)
                in_hs.append(False)
        outs, out_hs, stalls2 = [], [], []
        err = None
        for j, (P, r) in enumerate(zip(self.sources, rdys)):
            ov = v[P.valid]
            got = P.read(v)
            outs.append((ov, got))
            out_hs.append(bool(ov and r))
            if self.check_stability and stalls[j] is not None and cprev == cc and err is None:
                if not ov:
                    err = ("stab.valid", f"source{j}.valid withdrawn before ready")
                elif got != stalls[j]:
                    err = ("stab.payload", f"source{j} changed while valid & ~ready: {stalls[j]} -> {got}")
            stalls2.append(got if (ov and not r) else None)
        self.hs.add((tuple(o is not None for o in offers), tuple(in_hs), tuple(o[0] for o in outs), tuple(rdys)))
        if err is None:
            mon0 = mon
            mon, err = self.oracle.cycle(mon, offers, in_hs, outs, out_hs, cc, self)
            if err is not None and getattr(self, "tolerant", False):
                mon, err = mon0, None
        if err is not None:
            return env, err, 0
        prods2 = []
        # a consumer co-operates when it is ready or is shown nothing (see StreamHarness)
        coop = all(r or not o[0] for r, o in zip(rdys, outs)) and (self.coop_ctrl is None or cc in self.coop_ctrl)
        flags = 0
        for i, ((nid, pos, hold), pc) in enumerate(zip(prods, pcs)):
            if pc[0] == "idle":
                prods2.append((nid, pos, None))
                if pos > 0:
                    coop = False          # a producer pausing inside a packet is not cooperating
            elif in_hs[i]:
                flags |= (WAITBIT << i) | (SERVEDBIT << i)
                prods2.append(((nid + 1) % self.M, 0 if pc[2] else pos + 1, None))
            else:
                flags |= WAITBIT << i
                prods2.append((nid, pos, pc[1:]))
        if coop and any(o is not None for o in offers):
            flags |= COOP
        if any(in_hs) or any(out_hs):
            flags |= PROGRESS
        return (tuple(prods2), tuple(stalls2), cc, mon), None, flags

    def cover_report(self):
        return dict(handshake_patterns=len(self.hs))

    def vacuity(self):
        return None if len(self.hs) >= 4 else f"only {len(self.hs)} handshake patterns"


class CombRouteOracle:
    """Purely combinational routing elements: in every cycle the routed pair (sink i -> source j) is connected
    (valid, payload, first, last forwarded; ready returned), every other sink sees `idle_ready`, every other source
    shows valid = 0.  route(cc) -> (i, j) or None; exactly-once/in-order then follows from the producers' hold discipline."""
    def __init__(self, route, idle_ready):
        self.route, self.idle_ready = route, idle_ready
    def init(self):
        return ()
    def cycle(self, mon, offers, in_hs, outs, out_hs, cc, H):
        r = self.route(cc)
        for j, (ov, got) in enumerate(outs):
            if r is not None and r[1] == j:
                tok = offers[r[0]]
                if bool(ov) != (tok is not None):
                    return mon, ("comb.valid", f"source{j}.valid={ov} but routed sink{r[0]} offers={tok is not None}")
                if tok is not None and (got[0], got[1], got[2]) != (tok[0], tok[1], tok[2]):
                    return mon, ("comb.payload", f"source{j} shows {got} for token {tok}")
            elif ov:
                return mon, ("comb.valid", f"unrouted source{j} shows valid")
        for i, tok in enumerate(offers):
            if tok is None:
                continue
            if r is not None and r[0] == i:
                if in_hs[i] != out_hs[r[1]]:
                    return mon, ("comb.ready", f"sink{i} handshake {in_hs[i]} but routed source handshake {out_hs[r[1]]}")
            else:
                exp = self.idle_ready(i, cc)
                if exp is not None and in_hs[i] != bool(exp):
                    return mon, ("comb.ready", f"unrouted sink{i} sees ready={in_hs[i]}, expected {exp}")
        return mon, None
