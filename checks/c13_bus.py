"""C13 parts (a) and (b): SoCBusHandler call histories and SoCRegion.decoder windows.

Reference model ("boring"): regions are plain (origin, size, size_pow2 = next power of two) triples;
  * two non-linker regions must not intersect on [origin, origin + size_pow2)
  * an automatically placed region must satisfy 0 <= origin, origin + size <= 2**address_width and, if uncached,
    [origin, origin+size) must be inside [io.origin, io.origin + io.size) of one IO region (unrounded sizes: the weaker
    reading, the one LiteX's own check_region_is_in uses)
  * a decoder of a region must accept word address w  <=>  the bytes of word w intersect [origin, origin+size_pow2)
    (for aligned windows of at least one bus word this is plain containment)
"""
import fsmc  # noqa: F401
import types, itertools, collections

from migen import Signal
from migen.fhdl.structure import _Assign, _Slice, _Value
from migen.fhdl.tools import list_signals
from litex.gen.sim.core import Evaluator
from litex.soc.integration import soc
from litex.soc.interconnect import wishbone

from checks.c13_common import guarded, digest, hx, MachineryError, reset_migen_tracer

# ----------------------------------------------------------------------------------------------------------------------
# menus

MENUS = {
    32: dict(ORIG=[None, 0x0, 0x1000, 0x1800, 0x4000_0000, 0x8000_0000, 0xFFFF_F000],
             SIZE=[0x4, 0x800, 0x1000, 0x1800, 0x1000_0000, 0x8000_0000, 0x1_0000_0000],
             IO=[(0x8000_0000, 0x8000_0000), (0x4000, 0x3000), (0x1000, 0x1000), (0x1000, 0x1800)]),
    64: dict(ORIG=[None, 0x0, 0x1000, 0x8000_0000, 0x1_0000_0000, 1 << 63, (1 << 64) - 0x1000],
             SIZE=[0x8, 0x1000, 0x1800, 0x8000_0000, 1 << 32, 1 << 63, 1 << 64],
             IO=[(1 << 63, 1 << 63), (0x4000, 0x3000), (0x1000, 0x1000), (0x1_0000_0000, 0x1800)]),
}
REGION_KINDS = ("slave", "region", "linker", "nodecode")


def pow2_roundup(n):
    return 1 << max(0, (n - 1).bit_length())


def ref_in_io(origin, size, ios):
    return any(origin >= o and origin + size <= o + s for o, s in ios)


def ref_accept(origin, size_pow2, decode, word, B):
    if not decode:
        return True
    return word * B < origin + size_pow2 and origin < (word + 1) * B


# ----------------------------------------------------------------------------------------------------------------------
# decoders, evaluated by the real FHDL evaluator

class DecoderEval:
    def __init__(self, adr_width):
        self.adr_width = adr_width
        self.adr = Signal(max(1, adr_width), name_override="adr")
        self.ev = Evaluator({}, {})
        self.evals = 0

    def expr(self, fn):
        return fn(self.adr)

    def accept(self, e, a, sig=None):
        self.evals += 1
        if isinstance(e, _Value):
            self.ev.signal_values[self.adr if sig is None else sig] = a
            return bool(self.ev.eval(e))
        return bool(e)


class _RegionDecoder:
    __slots__ = ("e", "sig", "cache", "origin", "size_pow2", "decode")


class _BuiltExpr:
    """Select expression read back from a built wishbone.Decoder, with the design's own address signal."""

    def __init__(self, e, sig):
        self.e, self.sig = e, sig


# ----------------------------------------------------------------------------------------------------------------------
# stub interconnects: the real do_finalize runs, the (expensive) interconnect constructors only record their arguments

class _Capture:
    kind = None

    def __init__(self, *a, **kw):
        self.a, self.kw = a, kw


class StubInterconnect:
    NAMES = ("InterconnectPointToPoint", "InterconnectShared", "Crossbar")

    def __enter__(self):
        self.saved = {n: getattr(wishbone, n) for n in self.NAMES}
        for n in self.NAMES:
            setattr(wishbone, n, type("Stub" + n, (_Capture,), dict(kind=n)))
        return self

    def __exit__(self, *exc):
        for n, c in self.saved.items():
            setattr(wishbone, n, c)
        return False


# ----------------------------------------------------------------------------------------------------------------------

class BusModel:
    """Histories of add_slave / add_region (plain, linker, decode=False, IO) / name reuse / attach-by-name calls on a real
    SoCBusHandler that already has one master.  Names are r<i> (i = position in the history) unless reused."""

    def __init__(self, aw=32, dw=32, ioc=True, menu="core"):
        self.aw, self.dw, self.ioc, self.menu_name = aw, dw, bool(ioc), menu
        self.B = dw // 8
        self.adr_width = aw - (self.B.bit_length() - 1)
        self.key = f"bus|aw{aw}|dw{dw}|ioc{int(self.ioc)}"
        self.cover = collections.Counter()
        self.IF = wishbone.Interface(data_width=dw, address_width=aw, addressing="word")
        self.E = DecoderEval(self.adr_width)
        self.decoders = {}
        M = dict(MENUS[aw])
        if self.B > M["SIZE"][0]:
            M["SIZE"] = [self.B] + M["SIZE"][1:]        # regions are at least one bus word wide (sub-word: part b)
        self.M = M
        base = [("slave", o, s, c) for o in M["ORIG"] for s in M["SIZE"] for c in (True, False)]
        base += [("io", o, s) for o, s in M["IO"]]
        # fixed regions in the gap between the real end of a non power-of-two IO region and the end of its rounded-up window
        # (uncached there = outside every IO region), and just below that end
        go, gs = M["IO"][1]
        base += [("slave", go + gs, M["SIZE"][1], c) for c in (True, False)] + [("slave", go + gs - M["SIZE"][1], M["SIZE"][1], False)]
        if menu == "mid":       # a sub-menu of the linker regions of "full" (3 origins x 3 sizes; measured: all 49 cost 21 M histories at depth 4)
            base += [("linker", o, s, True) for o in (M["ORIG"][1], M["ORIG"][2], M["ORIG"][4]) for s in (M["SIZE"][2], M["SIZE"][3], M["SIZE"][4])]
        if menu == "full":
            base += [(k, o, s, c) for k in ("region", "linker") for o in M["ORIG"] for s in M["SIZE"] for c in (True, False)]
            base += [("nodecode", o, M["SIZE"][2], True) for o in (0x0, M["ORIG"][4])]
        self.base = base
        self.reuse_subs = [("slave", None, M["SIZE"][2], True), ("region", M["ORIG"][4], M["SIZE"][2], True),
                           ("io", M["IO"][1][0], M["IO"][1][1])]

    def params(self):
        return dict(part="bus", aw=self.aw, dw=self.dw, ioc=self.ioc, menu=self.menu_name)

    # -- construction ------------------------------------------------------------------------------------------------
    def fresh(self):
        h = soc.SoCBusHandler(standard="wishbone", data_width=self.dw, address_width=self.aw)
        h.io_regions_check = self.ioc
        h.add_master("m0", self.IF)
        return types.SimpleNamespace(h=h, last=None)

    def roots(self):
        return list(self.base)

    def info(self, ctx):
        h = ctx.h
        att = tuple(i for i, (n, r) in enumerate(h.regions.items()) if not r.linker)
        return (len(h.regions), len(h.io_regions), att)

    def menu(self, info):
        calls = list(self.base)
        if self.menu_name == "full":
            nreg, nio, att = info
            for k in range(nreg + nio):
                calls += [("reuse", k, sub) for sub in self.reuse_subs]
            calls += [("attach", k) for k in att] + [("attach", -1), ("attach_none",)]
        return calls

    # -- one real API call ------------------------------------------------------------------------------------------
    def step(self, ctx, call, idx):
        h = ctx.h
        name, reused = f"r{idx}", False
        if call[0] == "reuse":
            names = list(h.regions) + list(h.io_regions)
            name, reused, call = names[call[1]], True, call[2]
        kind = call[0]
        IF = self.IF
        if kind in REGION_KINDS:
            _, origin, size, cached = call

            def f():
                r = soc.SoCRegion(origin=origin, size=size, cached=cached, linker=(kind == "linker"), decode=(kind != "nodecode"))
                if kind in ("slave", "nodecode"):
                    h.add_slave(name, IF, r)
                else:
                    h.add_region(name, r)
        elif kind == "io":
            _, origin, size = call

            def f():
                h.add_region(name, soc.SoCIORegion(origin=origin, size=size, cached=False))
        elif kind == "attach":
            name = list(h.regions)[call[1]] if call[1] >= 0 else "nope"

            def f():
                h.add_slave(name, IF)
        elif kind == "attach_none":
            def f():
                h.add_slave(None, IF, None)
        else:
            raise MachineryError(f"unknown call {call}")
        ctx.last = dict(name=name, reused=reused, call=call, nslaves=len(h.slaves), nnames=len(h.regions) + len(h.io_regions))
        return guarded(f)

    # -- observation -------------------------------------------------------------------------------------------------
    def canon(self, ctx):
        h = ctx.h
        regs = tuple(sorted(((r.origin if r.origin is not None else -1), r.size, bool(r.cached), bool(r.linker), bool(r.decode),
                             n in h.slaves) for n, r in h.regions.items()))
        ios = tuple((r.origin, r.size) for r in h.io_regions.values())      # allocation order depends on insertion order
        return (regs, ios, len(h.masters), len(set(h.slaves) - set(h.regions)))

    def jstate(self, ctx):
        h = ctx.h
        return dict(regions={n: [hx(r.origin), hx(r.size), "cached" if r.cached else "uncached"] + (["linker"] if r.linker else [])
                             + (["slave"] if n in h.slaves else []) for n, r in h.regions.items()},
                    io_regions={n: [hx(r.origin), hx(r.size)] for n, r in h.io_regions.items()})

    def jcall(self, call):
        if call[0] == "reuse":
            return ["reuse-name-of-entry", call[1], self.jcall(call[2])]
        if call[0] in REGION_KINDS:
            api = {"slave": "add_slave", "nodecode": "add_slave[decode=False]", "region": "add_region", "linker": "add_region[linker]"}[call[0]]
            return [api, "origin=" + str(hx(call[1])), "size=" + hex(call[2]), "cached" if call[3] else "uncached"]
        if call[0] == "io":
            return ["add_region[SoCIORegion]", "origin=" + hex(call[1]), "size=" + hex(call[2])]
        return list(call)

    # -- invariants after a successful call ------------------------------------------------------------------------
    def check_call(self, ctx, call, idx, ret, before):
        h, L = ctx.h, ctx.last
        name, call = L["name"], L["call"]
        kind = call[0]
        viol = []
        ios = [(r.origin, r.size) for r in h.io_regions.values()]
        if L["reused"]:
            viol.append(dict(rule="name.reuse", msg=f"{self.jcall(call)} under the already granted name {name!r} was accepted"))
        if set(h.regions) & set(h.io_regions):
            viol.append(dict(rule="name.reuse", msg=f"name(s) {sorted(set(h.regions) & set(h.io_regions))} are both a region and an IO region"))
        regs = [(n, r) for n, r in h.regions.items() if not r.linker]
        for (n0, r0), (n1, r1) in itertools.combinations(regs, 2):
            if r0.origin < r1.origin + pow2_roundup(r1.size) and r1.origin < r0.origin + pow2_roundup(r0.size):
                viol.append(dict(rule="overlap.regions", msg=f"regions {n0} {r0.origin:#x}+{r0.size:#x} and {n1} {r1.origin:#x}+{r1.size:#x} "
                                 f"overlap on their decoded (power-of-two) windows", detail=dict(regions=[n0, n1])))
                break
        if kind in REGION_KINDS or kind == "io":
            if not L["reused"] and len(h.regions) + len(h.io_regions) != L["nnames"] + 1:
                viol.append(dict(rule="add.not_registered", msg=f"{self.jcall(call)} returned but the number of regions went from {L['nnames']} to "
                                 f"{len(h.regions) + len(h.io_regions)}"))
        if kind in REGION_KINDS:
            _, origin, size, cached = call
            r = h.regions.get(name)
            if r is None:
                viol.append(dict(rule="add.not_registered", msg=f"{self.jcall(call)} returned but region {name} does not exist"))
            elif origin is None:
                self.cover["auto_allocations"] += 1
                if r.size != size or bool(r.cached) != cached:
                    viol.append(dict(rule="alloc.wrong_region", msg=f"asked for size {size:#x} cached={cached}, got {r.size:#x} cached={r.cached}"))
                if not isinstance(r.origin, int) or r.origin < 0 or r.origin + r.size > 2**self.aw:
                    viol.append(dict(rule="alloc.outside_space", msg=f"automatically allocated region {hx(r.origin)}+{r.size:#x} is outside the "
                                     f"{self.aw}-bit address space"))
                elif r.origin % pow2_roundup(size):
                    viol.append(dict(rule="alloc.unaligned", msg=f"automatically allocated region {r.origin:#x}+{r.size:#x} is not aligned on its "
                                     f"decoded size {pow2_roundup(size):#x}"))
                elif not cached:
                    self.cover["auto_allocations_uncached"] += 1
                    if not ref_in_io(r.origin, r.size, ios):
                        # signature of DESIGN candidate k: inside the power-of-two ROUNDED extent of a non power-of-two IO region
                        rounded = any(r.origin >= o and r.origin + r.size <= o + pow2_roundup(s) for o, s in ios)
                        viol.append(dict(rule="alloc.uncached_beyond_io_end" if rounded else "alloc.uncached_outside_io",
                                         msg=f"uncached automatic allocation {r.origin:#x}+{r.size:#x} is not inside any IO region "
                                         f"{[(hex(o), hex(s)) for o, s in ios]}" + (" (it lies inside the power-of-two rounded extent of one)" if rounded else "")
                                         + f"; handler's own check_region_is_io: {h.check_region_is_io(r)}",
                                         detail=dict(region=[r.origin, r.size], io_regions=ios)))
                elif ref_in_io(r.origin, r.size, ios):
                    self.cover["cached_auto_allocation_inside_io_region(not constrained by the property)"] += 1
            else:
                if r.origin != origin or r.size != size or bool(r.cached) != cached:
                    viol.append(dict(rule="add.wrong_region", msg=f"asked for {origin:#x}+{size:#x}, registered {hx(r.origin)}+{r.size:#x}"))
                if self.ioc and cached == ref_in_io(origin, size, ios):
                    viol.append(dict(rule="io.fixed_consistency", msg=f"fixed region {origin:#x}+{size:#x} cached={cached} accepted although it is "
                                     f"{'inside' if cached else 'outside'} the IO regions {[(hex(o), hex(s)) for o, s in ios]}"))
                if origin + pow2_roundup(size) > 2**self.aw:
                    self.cover["fixed_region_beyond_address_space(reported, not a violation)"] += 1
        if kind in ("slave", "nodecode", "attach"):
            if name not in h.slaves or len(h.slaves) != L["nslaves"] + 1:
                viol.append(dict(rule="slave.not_registered", msg=f"{self.jcall(call)} returned but slave {name} was not added exactly once"))
        return viol

    def check_reject(self, ctx, call, idx, before, after):
        return []       # SoCError is fatal for a build: what a rejected call leaves behind is only counted (c13_common)

    # -- finalisation: real do_finalize (stubbed interconnect constructors) + decoders --------------------------------
    def region_decoder(self, r, fn):
        k = (r.origin, r.size_pow2, bool(r.decode))
        D = self.decoders.get(k)
        if D is None:
            D = _RegionDecoder()
            D.origin, D.size_pow2, D.decode = r.origin, pow2_roundup(r.size), bool(r.decode)
            if isinstance(fn, _BuiltExpr):
                D.e, D.sig = fn.e, fn.sig
            else:
                D.e, D.sig = self.E.expr(fn), None
            D.cache = {}
            self.decoders[k] = D
            self.cover["distinct_decoders"] += 1
            return D, True
        return D, False

    def accept(self, D, a):
        v = D.cache.get(a)
        if v is None:
            v = D.cache[a] = self.E.accept(D.e, a, D.sig)
        return v

    def boundaries(self, origin, size_pow2):
        lo, hi = origin // self.B, -(-(origin + size_pow2) // self.B)
        n = 1 << self.adr_width
        return [a for a in (lo - 1, lo, lo + 1, hi - 1, hi, hi + 1) if 0 <= a < n]

    def own_tests(self, D):
        n = 1 << self.adr_width
        lo = (D.origin // self.B) & (n - 1)
        return set(self.boundaries(D.origin, D.size_pow2)) | {0, n - 1} | {lo ^ (1 << b) for b in range(self.adr_width)}

    def check_decoders(self, names, regs, fns):
        viol, decs = [], []
        for n, r, fn in zip(names, regs, fns):
            if r.origin % pow2_roundup(r.size):
                viol.append(dict(rule="finalize.unaligned_built", msg=f"finalisation built a decoder for {n} {r.origin:#x}+{r.size:#x} whose origin "
                                 f"is not aligned on its decoded size {pow2_roundup(r.size):#x}"))
            D, new = self.region_decoder(r, fn)
            decs.append(D)
            if new:
                for a in sorted(self.own_tests(D)):
                    if self.accept(D, a) != ref_accept(D.origin, D.size_pow2, D.decode, a, self.B):
                        viol.append(dict(rule="decode.window", msg=f"decoder of region {D.origin:#x}+{D.size_pow2:#x} on a {self.dw}-bit bus "
                                         f"{'accepts' if self.accept(D, a) else 'refuses'} word address {a:#x}",
                                         detail=dict(region=[D.origin, D.size_pow2], word=a)))
                        break
        T = set()
        for D in decs:
            T.update(self.boundaries(D.origin, D.size_pow2))
        for a in sorted(T):
            sel = [n for n, D in zip(names, decs) if self.accept(D, a)]
            ref = [n for n, D in zip(names, decs) if ref_accept(D.origin, D.size_pow2, D.decode, a, self.B)]
            if len(sel) > 1:
                viol.append(dict(rule="decode.two_slaves", msg=f"word address {a:#x} selects slaves {sel}", detail=dict(word=a)))
                break
            if sel != ref:
                viol.append(dict(rule="decode.window", msg=f"word address {a:#x} selects {sel}, the region windows say {ref}", detail=dict(word=a)))
                break
        self.cover["states_with_decoders_checked"] += 1
        return viol

    def check_state(self, ctx):
        h = ctx.h
        out, _ = guarded(h.do_finalize)
        self.cover["finalize_" + out] += 1
        if out != "ok":
            return []
        ic = h._interconnect
        if ic is None:
            return []
        if not isinstance(ic, _Capture):
            raise MachineryError("bus history enumeration must run under StubInterconnect")
        if ic.kind == "InterconnectPointToPoint":
            self.cover["finalize_point_to_point"] += 1
            return []
        names = list(h.slaves.keys())
        fns = [fn for fn, _ in ic.kw["slaves"]]
        if len(fns) != len(names):
            raise MachineryError("slave list mismatch")
        return self.check_decoders(names, [h.regions[n] for n in names], fns)


# ----------------------------------------------------------------------------------------------------------------------

class RealBusModel(BusModel):
    """Small menu, real wishbone interfaces, add_master (plain, with region -> Remapper, reused name), the REAL
    interconnect is built by do_finalize and the slave-select expressions are read back from the built Decoder(s)."""

    def __init__(self, aw=32, dw=32, interconnect="shared"):
        BusModel.__init__(self, aw, dw, True, "core")
        self.interconnect = interconnect
        self.menu_name = "real"
        self.key = f"busreal|aw{aw}|dw{dw}|{interconnect}"
        M = self.M
        self.base = [("slave", o, s, c) for o in (None, 0x0, 0x1000, M["ORIG"][5]) for s in (M["SIZE"][1], M["SIZE"][2], M["SIZE"][3], M["SIZE"][5])
                     for c in (True, False)]           # SIZE[1] fits into the rounded-up tail of the non power-of-two SIZE[3]
        self.base += [("io", *M["IO"][0]), ("io", *M["IO"][1])]
        self.base += [("master", False, False), ("master", False, True), ("master", True, False)]
        # anonymous masters get the automatic name "master<count>"; an explicit name of that form may already own it
        self.base += [("master", "anon", False), ("master", "auto", False)]
        self.exprs = {}

    def params(self):
        return dict(part="busreal", aw=self.aw, dw=self.dw, interconnect=self.interconnect)

    def new_if(self):
        return wishbone.Interface(data_width=self.dw, address_width=self.aw, addressing="word")

    def fresh(self):
        reset_migen_tracer()
        h = soc.SoCBusHandler(standard="wishbone", data_width=self.dw, address_width=self.aw, interconnect=self.interconnect)
        h.add_master("m0", self.new_if())          # one master from the start, so that every state builds an interconnect
        return types.SimpleNamespace(h=h, last=None)

    def info(self, ctx):
        return ()

    def menu(self, info):
        return list(self.base)

    def roots(self):
        return list(self.base)

    def step(self, ctx, call, idx):
        h = ctx.h
        if call[0] != "master":
            self.IF = self.new_if()
            return BusModel.step(self, ctx, call, idx)
        _, reuse, with_region = call
        if reuse == "anon":
            name, reuse = None, False
        elif reuse == "auto":
            name, reuse = f"master{len(h.masters) + 1}", False       # the name the anonymous request after the next one would get
            reuse = name in h.masters
        else:
            name = list(h.masters)[0] if reuse else f"m{idx + 1}"
        region = soc.SoCRegion(origin=0x1000, size=0x1000) if with_region else None
        m = self.new_if()
        ctx.last = dict(name=name, reused=reuse, call=call, nmasters=len(h.masters))
        return guarded(lambda: h.add_master(name, m, region))

    def jcall(self, call):
        if call[0] == "master":
            return ["add_master", {True: "reused-name", False: "new-name", "anon": "name=None", "auto": "name=master<count+1>"}[call[1]],
                    "region=0x1000+0x1000" if call[2] else "region=None"]
        return BusModel.jcall(self, call)

    def check_call(self, ctx, call, idx, ret, before):
        if call[0] != "master":
            return BusModel.check_call(self, ctx, call, idx, ret, before)
        L, h = ctx.last, ctx.h
        viol = []
        if L["reused"]:
            viol.append(dict(rule="name.reuse", msg=f"add_master under the already granted name {L['name']!r} was accepted"))
        elif len(h.masters) != L["nmasters"] + 1 or (L["name"] is not None and L["name"] not in h.masters):
            viol.append(dict(rule="master.not_registered", msg="add_master returned but the master was not added exactly once"))
        return viol

    def check_state(self, ctx):
        h = ctx.h
        out, _ = guarded(h.do_finalize)
        self.cover["finalize_" + out] += 1
        if out != "ok":
            return []
        ic = h._interconnect
        if ic is None:
            return []
        if isinstance(ic, wishbone.InterconnectPointToPoint):
            self.cover["finalize_point_to_point"] += 1
            return self.check_p2p(h, ic)
        if isinstance(ic, wishbone.InterconnectShared):
            dec = getattr(ic, "decoder", None)
            ok = isinstance(dec, wishbone.Decoder) and getattr(dec, "_fragment", None) is not None
            if ok:
                st0 = dec._fragment.comb[:len(h.slaves)]
                ok = len(st0) == len(h.slaves) and all(isinstance(s_, _Assign) and isinstance(s_.l, _Slice) and s_.l.start == i_ and s_.l.stop == i_ + 1
                                                       for i_, s_ in enumerate(st0))
            if not ok:
                # not the structure this harness reads back (one Decoder with one slave_sel bit per slave): decide by behaviour
                self.cover["shared_probed"] = self.cover.get("shared_probed", 0) + 1
                return self.check_probe(h, ic)
            decs = [dec]
        elif isinstance(ic, wishbone.Crossbar):
            decs = [m for _, m in ic._submodules if isinstance(m, wishbone.Decoder)]
            if len(decs) != len(h.masters):
                # not the structure this harness reads back (one Decoder per master): decide by behaviour on the real module
                self.cover["crossbar_probed"] += 1
                return self.check_probe(h, ic)
        else:
            raise MachineryError(f"unexpected interconnect {type(ic)}")
        names = list(h.slaves.keys())
        regs = [h.regions[n] for n in names]
        viol = []
        for dec in decs:
            self.cover["built_decoders_read_back"] += 1
            st = dec._fragment.comb[:len(names)]
            fns = []
            for i, s in enumerate(st):
                if not (isinstance(s, _Assign) and isinstance(s.l, _Slice) and s.l.start == i and s.l.stop == i + 1):
                    raise MachineryError("wishbone.Decoder: slave_sel assignments not where expected")
                sigs = list(list_signals(s.r)) if isinstance(s.r, _Value) else []
                if len(sigs) > 1 or (sigs and len(sigs[0]) != self.adr_width):
                    raise MachineryError(f"slave_sel expression over unexpected signals {sigs}")
                fns.append(_BuiltExpr(s.r, sigs[0] if sigs else None))
            self.decoders = {}          # expressions of a built design are tied to that design's address signal
            viol += self.check_decoders(names, regs, fns)
        return viol


    _p2p_cache = {}

    def check_probe(self, h, ic):
        """Behavioural routing probe of a built interconnect whose structure is not the expected one: every master in turn presents
        a read at the first / last word of every decoded window, at the words just outside them and at the last word of the
        address space, on the stock simulator; in the second cycle of the request exactly the slave whose window contains the
        address may see cyc & stb (none for an address in no window)."""
        from litex.gen.sim import run_simulation
        B = self.dw // 8
        masters = list(h.masters.items())
        slaves = list(h.slaves.items())
        nwords = 1 << len(masters[0][1].adr)
        wins = [(h.regions[n].origin // B, (h.regions[n].origin + h.regions[n].size_pow2) // B) for n, _ in slaves]
        cand = {nwords - 1}
        for lo, hi in wins:
            cand |= {lo - 1, lo, hi - 1, hi}
        probes = sorted(a for a in cand if 0 <= a < nwords)
        bad = []

        def gen():
            for mi, (mn, m) in enumerate(masters):
                for a in probes:
                    yield m.adr.eq(a)
                    yield m.we.eq(0)
                    yield m.cyc.eq(1)
                    yield m.stb.eq(1)
                    yield m.sel.eq(2**len(m.sel) - 1)
                    yield
                    yield
                    yield
                    want = [j for j, (lo, hi) in enumerate(wins) if lo <= a < hi]
                    got = []
                    for j, (sn, sl) in enumerate(slaves):
                        if (yield sl.cyc) and (yield sl.stb):
                            got.append(j)
                    if got != want[:1] and len(bad) < 4:
                        bad.append((mn, a, [slaves[j][0] for j in got], [slaves[j][0] for j in want]))
                    yield m.cyc.eq(0)
                    yield m.stb.eq(0)
                    yield
                    yield
        run_simulation(ic, gen())
        if not bad:
            return []
        mn, a, got, want = bad[0]
        return [dict(property="C06", rule="route.probe",
                     msg=f"built {type(ic).__name__}: a cycle of master {mn!r} to word address {a:#x} (byte {a*B:#x}) is presented to slave(s) {got}, "
                         f"the decoded windows select {want or 'no slave'}",
                     detail=dict(master=mn, adr=a, presented=got, expected=want, more=[list(map(str, b)) for b in bad[1:]]))]

    def check_p2p(self, h, ic):
        """do_finalize chose InterconnectPointToPoint (no Decoder, no Timeout): bus cycles to word addresses outside the only
        slave's decoded window must still not be presented to it (C06: 'to no slave if none matches').  Decided by driving the
        REAL point-to-point module on the stock simulator with the first word before / after the window and the last word of
        the address space."""
        (mname, m), = h.masters.items()
        (sname, s), = h.slaves.items()
        reg = h.regions[sname]
        B = self.dw // 8
        nwords = 1 << len(m.adr)
        lo, hi = reg.origin // B, (reg.origin + reg.size_pow2) // B
        probes = [a for a in (lo - 1, hi, nwords - 1) if 0 <= a < nwords and not (lo <= a < hi)]
        key = (reg.origin, reg.size_pow2, nwords)
        if key not in self._p2p_cache:
            seen = []
            if probes:
                from litex.gen.sim import run_simulation

                def gen():
                    for a in probes:
                        yield m.adr.eq(a)
                        yield m.cyc.eq(1)
                        yield m.stb.eq(1)
                        yield m.sel.eq(2**len(m.sel) - 1)
                        yield
                        yield
                        if (yield s.cyc) and (yield s.stb):
                            seen.append((a, (yield s.adr)))
                        yield m.cyc.eq(0)
                        yield m.stb.eq(0)
                        yield
                run_simulation(ic, gen())
            self._p2p_cache[key] = seen
        seen = self._p2p_cache[key]
        self.cover["p2p_probed"] += 1
        if not seen:
            return []
        a, sa = seen[0]
        rule = "p2p.undecoded.origin0" if reg.origin == 0 else "p2p.undecoded"
        return [dict(property="C06", rule=rule,
                     msg=f"1 master + 1 slave: do_finalize built InterconnectPointToPoint for slave {sname!r} at {reg.origin:#x}+{reg.size:#x} "
                         f"(decoded window {reg.size_pow2:#x}); a bus cycle to word address {a:#x} (byte {a*B:#x}), outside the window, is presented "
                         f"to the slave (slave adr {sa:#x}) - no decoder, and no time-out either",
                     detail=dict(origin=reg.origin, size=reg.size, probes=[hex(x) for x in probes], presented=[hex(x[0]) for x in seen]))]


# ----------------------------------------------------------------------------------------------------------------------
# part (b): exhaustive sweep of SoCRegion.decoder on small stub buses

def decoder_sweep(aw, dw, mode):
    """mode 'all': every (origin, size) of the space; every accepted decoder evaluated on EVERY word address; pairs of
    byte-disjoint windows of at least one bus word must select disjoint word sets.
    mode 'subword': the pairs in which a window is narrower than one bus word."""
    bus = types.SimpleNamespace(address_width=aw, data_width=dw)
    B = dw // 8
    adrw = aw - (B.bit_length() - 1)
    nwords = 1 << adrw
    E = DecoderEval(adrw)
    if aw <= 8:
        origins = list(range(0, 2**aw + 1))
        sizes = list(range(1, 2**aw + 1)) + [2**(aw + 1)]
    else:
        origins = list(range(0, 2**aw + 1, 4))
        sizes = [1, 2, 3] + list(range(4, 2**aw + 1, 4)) + [2**(aw + 1)]
    cover = collections.Counter()
    viol = {}
    seen = set()
    windows = {}
    sample = None

    def add(rule, msg, detail):
        if rule not in viol:
            viol[rule] = dict(rule=rule, msg=msg, trace=[detail], detail=dict(detail, model=dict(part="dec", aw=aw, dw=dw, mode=mode)))

    for size in sizes:
        p = pow2_roundup(size)
        if mode == "subword" and p >= B:
            continue
        for origin in origins:
            out, r = guarded(lambda: soc.SoCRegion(origin=origin, size=size))
            if out != "ok":
                cover["region_ctor_" + out] += 1
                continue
            out, fn = guarded(r.decoder, bus)
            aligned = origin % p == 0
            if out != "ok":
                cover["decoder_" + out + ("_aligned" if aligned else "_unaligned")] += 1
                continue
            seen.add(digest(f"dec|aw{aw}|dw{dw}", (origin, size)))
            if not aligned:
                add("decode.unaligned_accepted", f"decoder() accepted origin {origin:#x} with size {size:#x} (decoded size {p:#x}) on a stub bus aw={aw} dw={dw}",
                    dict(origin=origin, size=size))
                continue
            cover["decoders_swept"] += 1
            e = E.expr(fn)
            mask = 0
            for a in range(nwords):
                acc = E.accept(e, a)
                if acc != ref_accept(origin, p, True, a, B):
                    add("decode.window", f"decoder of {origin:#x}+{size:#x} (window {p:#x}) on a stub bus aw={aw} dw={dw} "
                        f"{'accepts' if acc else 'refuses'} word address {a:#x}", dict(origin=origin, size=size, word=a))
                if acc:
                    mask |= 1 << a
            if sample is None and 0 < origin and B < p < 2**aw:
                sample = dict(bus=dict(address_width=aw, data_width=dw), origin=hex(origin), size=hex(size),
                              accepted_words=[hex(a) for a in range(nwords) if mask >> a & 1][:8])
            windows.setdefault((origin, p), mask)
    W = sorted(windows.items())
    for i, ((o0, p0), m0) in enumerate(W):
        for (o1, p1), m1 in W[i + 1:]:
            if o0 < o1 + p1 and o1 < o0 + p0:
                continue                      # byte windows intersect: such a pair is rejected by the bus handler
            sub = min(p0, p1) < B
            if sub != (mode == "subword"):
                continue
            cover["disjoint_window_pairs"] += 1
            if m0 & m1:
                a = (m0 & m1).bit_length() - 1
                add("decode.two_slaves", f"byte-disjoint regions {o0:#x}+{p0:#x} and {o1:#x}+{p1:#x} are both selected by word address {a:#x} "
                    f"on a {dw}-bit bus", dict(origin=o0, size=p0, origin2=o1, size2=p1, word=a))
    cover["decoder_evaluations"] = E.evals
    return dict(evaluations=E.evals, seen=seen, violations=list(viol.values()), cover=dict(cover), sample=sample)
