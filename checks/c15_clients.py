"""C15, third anchored mechanism: the typical clients of the event manager (DESIGN.md §4 C15).

The REAL client (litex.soc.cores.timer.Timer, litex.soc.cores.uart.UART with a two-endpoint PHY stub, litex.soc.cores.gpio.GPIOIn /
GPIOTristate with_irq=True) sits behind the CSR path of the EventManager configurations (csr_bus.Interconnect -> real CSRBank, bus 8 / 32 bit).
Per cycle the environment chooses one CSR bus operation x one value of the client's inputs (pads, PHY handshakes).  On every transition

  1. a reference model of the client written from its documentation predicts the LEVEL of every event trigger (Timer: countdown value is 0;
     GPIO: active level / input differs from the previous cycle; UART: TX FIFO not full / RX FIFO not empty) and the client specific side
     effects (UART: acknowledging the rx event removes exactly the oldest character); the trigger signals of the real event sources are compared
     with it (rules <client>.trigger.<source>, uart.*), and
  2. the generic monitor of EvHarness (c15_events.py) runs unchanged on the *observed* triggers, with the kind and the bit position of every
     source stated here from the documentation / the software headers, not read from the code: pending / status / enable / irq / set-over-clear /
     no cross clearing / dat_r of the three event registers (rules event.lost, event.spurious, status.raw, enable.value, irq.mismatch, bus.dat_r).
"""
import fsmc  # noqa
from migen import *
from litex.soc.interconnect import csr_bus, stream
from litex.soc.interconnect.csr_eventmanager import _EventSource
from migen.util.misc import xdir
from fsmc.design import MachineryError
from checks.c15_events import EvHarness

IDLE_ADR = 0x800 // 4        # first word of page 1: no bank answers, dat_r = 0 in idle cycles

ASSUMPTIONS = [
    "clients: every source is an edge event on the rising edge of an 'active' level that the reference model predicts from the documentation: "
    "Timer zero = (countdown value == 0); UART tx = TX FIFO not full (UART_EV_TX = bit 0), rx = RX FIFO not empty (UART_EV_RX = bit 1); GPIO pin n (bit n) = "
    "Edge mode: input high (edge = 0, rising) / input low (edge = 1, falling), Change mode: input differs from its value in the previous cycle; "
    "out of reset a level that is already active counts as one edge (Timer value 0, TX FIFO not full)",
    "Timer: load / reload / en written through the CSR bus take effect in the cycle after the write; values from a menu <= 3 (the 32-bit counter only reaches these); "
    "csr8: only the least significant byte of load / reload is written",
    "GPIO: the 'input' of the event logic is the synchronised value shown by the `in` CSR (observed after the MultiReg; the synchroniser itself is C05); a "
    "change of mode / edge by software may itself create an edge of the active level (the level model covers it); in Change mode two changes in "
    "consecutive clock cycles are ONE active pulse, i.e. one event (not judged; the manual configuration 'every change is an event' shows the consequence)",
    "UART: PHY stub = two free stream endpoints (phy.sink.ready free every cycle; phy.source.valid/data free every cycle, no back-pressure: a byte offered "
    "while the RX FIFO is not ready is lost); the FIFO flags are those of the real stream.SyncFIFO(depth 2, buffered) (FIFO correctness is C03/C04/C19); "
    "TX FIFO with fewer than `depth` stored bytes must not be full; a received byte becomes visible within 3 cycles; writing 1 to the rx pending bit "
    "(and, with rx_fifo_rx_we, reading RXTX) removes exactly the oldest byte if one is visible, nothing else does (read strobe of the RX FIFO compared in every cycle); "
    "one direction per configuration except the tx+rx one; one byte value (quick) or two (thorough: order of the bytes shown on RXTX)",
    "client configurations: the bus alphabet is every write pattern of pending / enable, reads of the event registers, and the client registers named in the "
    "configuration; configurations with two GPIO pins and the UART tx+rx one use a reduced alphabet (pending 1,2,3; enable 3; no reads; one pin's mode/edge "
    "bits writable per configuration) so that the product closes; idle cycles address an unmapped page",
]


class _ClientDUT(Module):
    def __init__(self, client, dw):
        self.submodules.client = client
        self.bus = csr_bus.Interface(data_width=dw, address_width=14)
        b = csr_bus.Interface(data_width=dw, address_width=14)
        self.submodules.bank = csr_bus.CSRBank(client.get_csrs(), address=0, bus=b)
        self.submodules.ic = csr_bus.Interconnect(self.bus, [b])


class ClientHarness(EvHarness):
    """env = ((manager state of EvHarness,), expected dat_r or -1 = not judged, client model state);  choice = (bus operation, client inputs)"""
    tag = "client"
    src_names = ()          # expected bit order of the sources (software contract)
    kinds = ()              # expected kind of every source
    conf_every = 211

    def __init__(self, name, dw, pend_menu=None, en_menu=None, reads=("ev_pending", "ev_status", "ev_enable")):
        EvHarness.__init__(self, name, [tuple(self.kinds)], dw)
        self.edges = [0] * len(self.kinds)
        n = len(self.kinds)
        self.pend_menu = tuple(range(1 << n)) if pend_menu is None else tuple(pend_menu)
        self.en_menu = tuple(range(1 << n)) if en_menu is None else tuple(en_menu)
        self.reads = tuple(reads)

    # -- to be provided by the client harness ------------------------------------------------------
    def make_client(self):
        raise NotImplementedError
    def client_regs(self):
        """name -> compound CSR object (the least significant bus word is addressed)"""
        return {}
    def client_ops(self):
        return []
    def client_inputs(self):
        return [()]
    def client_init(self):
        return ()
    def drive_client(self, v, cin):
        pass
    def client_step(self, v, cenv, op, cin, clear):
        """-> (expected trigger levels as a bit vector, next model state, error or None)"""
        raise NotImplementedError

    # -- Harness interface -------------------------------------------------------------------------
    def build(self):
        self.client = self.make_client()
        self.dut = _ClientDUT(self.client, self.dw)
        return self.dut

    def bind(self, D):
        d, ev = self.dut, self.client.ev
        self.adr, self.we, self.re = D.i(d.bus.adr), D.i(d.bus.we), D.i(d.bus.re)
        self.dat_w, self.dat_r = D.i(d.bus.dat_w), D.i(d.bus.dat_r)
        self.irq = D.i(ev.irq)
        where = {id(sc): k for k, sc in enumerate(d.bank.simple_csrs)}
        def addr(c):
            scs = c.get_simple_csrs() if hasattr(c, "get_simple_csrs") else [c]
            if not scs or id(scs[-1]) not in where:
                raise MachineryError(f"{self.name}: CSR {getattr(c, 'name', c)} is not in the bank")
            return where[id(scs[-1])]          # ordering "big": the last word holds the least significant bits
        self.A = dict(ev_status=addr(ev.status), ev_pending=addr(ev.pending), ev_enable=addr(ev.enable))
        for k, c in self.client_regs().items():
            self.A[k] = addr(c)
        if len(set(self.A.values())) != len(self.A) or 0 in (self.A["ev_status"], self.A["ev_pending"], self.A["ev_enable"]):
            raise MachineryError(f"{self.name}: unexpected register addresses: {self.A}")
        # layout: the sources the manager really has, in its bit order, against the expected names
        have = sorted([(s.duid, k) for k, s in xdir(ev, True) if isinstance(s, _EventSource)])
        have = tuple(k for _, k in have)
        self.layout_err = None
        if have != tuple(self.src_names):
            self.layout_err = (f"{self.tag}.ev.layout", f"event bits are {have}, the software contract is {tuple(self.src_names)}")
            srcs = []
        else:
            srcs = [getattr(ev, k) for k in self.src_names]
        n = len(self.src_names)
        a = dict(status=self.A["ev_status"], pending=self.A["ev_pending"], enable=self.A["ev_enable"])
        self.man = [dict(n=n, kinds=list(self.kinds), trig=[D.i(s.trigger) for s in srcs], a=a, irq=D.i(ev.irq),
                         pend=D.i(ev.pending.status), stat=D.i(ev.status.status), en=D.i(ev.enable.storage))]
        ops = [("idle",)]
        ops += [("w", "ev_pending", pat) for pat in self.pend_menu]
        ops += [("w", "ev_enable", pat) for pat in self.en_menu]
        ops += [("r", k) for k in self.reads]
        self.ops = ops + list(self.client_ops())
        for op in self.ops:
            if op[0] != "idle" and op[1] not in self.A:
                raise MachineryError(f"{self.name}: operation {op} on an unknown register")
        self.cins = list(self.client_inputs())
        self.bind_client(D)

    def bind_client(self, D):
        pass

    def env_init(self):
        mans, datr = EvHarness.env_init(self)
        return (mans, datr, self.client_init())

    def choices(self, env):
        return [(op, cin) for op in self.ops for cin in self.cins]

    def drive(self, v, env, ch):
        op, cin = ch
        v[self.we] = v[self.re] = 0
        v[self.adr] = IDLE_ADR
        v[self.dat_w] = 0
        if op[0] == "w":
            v[self.we], v[self.adr], v[self.dat_w] = 1, self.A[op[1]], op[2]
        elif op[0] == "r":
            v[self.re], v[self.adr] = 1, self.A[op[1]]
        self.drive_client(v, cin)

    def observe(self, v, env, ch):
        if self.layout_err:
            return env, self.layout_err, 0
        op, cin = ch
        mans, datr, cenv = env
        pend, trig_d, enable, re_d, r_d = mans[0]
        clear = r_d if re_d else 0
        exp, cenv2, err = self.client_step(v, cenv, op, cin, clear)
        if err is not None:
            return env, err, 0
        m = self.man[0]
        obs = 0
        for i, idx in enumerate(m["trig"]):
            obs |= (v[idx] & 1) << i
        if obs != exp:
            i = [k for k in range(m["n"]) if (obs ^ exp) >> k & 1][0]
            return env, (f"{self.tag}.trigger.{self.src_names[i]}",
                         f"trigger of event '{self.src_names[i]}' is {(obs >> i) & 1}, the reference model of the client says {(exp >> i) & 1} ({self.explain(cenv)})"), 0
        for i in range(m["n"]):
            if (obs >> i) & 1 and not trig_d[i]:
                self.edges[i] += 1
        # generic rules of the event manager on the observed triggers
        if op[0] != "idle" and op[1].startswith("ev_"):
            op_ev = (op[0], self.A[op[1]]) + tuple(op[2:])
            judged = True
        else:
            op_ev = ("idle",)
            judged = op[0] == "idle"
        (mans2, datr2), err, _ = EvHarness.observe(self, v, (mans, v[self.dat_r] if datr < 0 else datr), ((obs,), op_ev))
        if err is not None:
            return env, err, 0
        return (mans2, datr2 if judged else -1, cenv2), None, 0

    def explain(self, cenv):
        return f"model state {cenv}"

    def cover_report(self):
        r = EvHarness.cover_report(self)
        r.update({f"edges_{k}": e for k, e in zip(self.src_names, self.edges)})
        r.update(self.client_cover())
        return r

    def client_cover(self):
        return {}

    def vacuity(self):
        for k, e in zip(self.src_names, self.edges):
            if e < 2:
                return f"event '{k}' fired fewer than twice"
        return EvHarness.vacuity(self) or self.client_vacuity()

    def client_vacuity(self):
        return None


# ---------------------------------------------------------------------------------------------------
# Timer
# ---------------------------------------------------------------------------------------------------
class TimerHarness(ClientHarness):
    """model = (count, load, reload, en) — from the docstring of timer.py: while disabled the counter holds `load`; while enabled it counts
    down to 0, and from 0 it takes `reload` (0 = stays there: one-shot).  The zero event is the arrival at 0."""
    tag = "timer"
    src_names = ("zero",)
    kinds = ("rising",)

    def __init__(self, name, dw, values=(0, 1, 2), with_value=False, **kw):
        ClientHarness.__init__(self, name, dw, **kw)
        self.values, self.with_value = tuple(values), with_value
        self.oneshot, self.periodic = set(), set()

    def make_client(self):
        from litex.soc.cores.timer import Timer
        return Timer()

    def client_regs(self):
        t = self.client
        return dict(load=t._load, reload=t._reload, en=t._en, update_value=t._update_value, value=t._value)

    def client_ops(self):
        ops = [("w", "load", x) for x in self.values] + [("w", "reload", x) for x in self.values]
        ops += [("w", "en", 0), ("w", "en", 1)]
        return ops + ([("w", "update_value", 1), ("r", "value")] if self.with_value else [])

    def client_init(self):
        return (0, 0, 0, 0)

    def client_step(self, v, cenv, op, cin, clear):
        count, load, reload, en = cenv
        level = 1 if count == 0 else 0
        if en:
            count2 = reload if count == 0 else count - 1
            if count != 0 and count2 == 0:
                (self.periodic if reload else self.oneshot).add((load, reload))
        else:
            count2 = load
        if op[0] == "w":
            if op[1] == "load":
                load = op[2]
            elif op[1] == "reload":
                reload = op[2]
            elif op[1] == "en":
                en = op[2] & 1
        return level, (count2, load, reload, en), None

    def explain(self, cenv):
        return "countdown value %d, load %d, reload %d, en %d" % cenv

    def client_cover(self):
        return dict(one_shot_runs=len(self.oneshot), periodic_runs=len(self.periodic))

    def client_vacuity(self):
        if not self.oneshot or not self.periodic:
            return "one-shot / periodic expiry not both observed"
        return None


# ---------------------------------------------------------------------------------------------------
# GPIO
# ---------------------------------------------------------------------------------------------------
class _TristatePads:
    def __init__(self, n):
        self.i, self.o, self.oe = Signal(n), Signal(n), Signal(n)


class GpioHarness(ClientHarness):
    """model = (mode, edge, previous input): per pin, from the CSR descriptions "Mode: 0: Edge, 1: Change" / "Edge: 0: Rising Edge, 1: Falling Edge"."""
    tag = "gpio"

    def __init__(self, name, dw, npins, flavour="GPIOIn", cfg_menu=None, read_in=True, strict_change=False, cfg_regs=("mode", "edge"),
                 pad_menu=None, **kw):
        self.npins, self.flavour, self.read_in, self.strict_change = npins, flavour, read_in, strict_change
        self.cfg_regs, self.pad_menu = tuple(cfg_regs), pad_menu
        self.cfg_menu = tuple(range(1 << npins)) if cfg_menu is None else tuple(cfg_menu)
        self.src_names = tuple(f"i{n}" for n in range(npins))
        self.kinds = ("rising",) * npins
        ClientHarness.__init__(self, name, dw, **kw)
        self.seen = set()

    def make_client(self):
        from litex.soc.cores import gpio
        if self.flavour == "GPIOIn":
            self.pads = Signal(self.npins)
            self.pad_in = self.pads
            return gpio.GPIOIn(self.pads, with_irq=True)
        if self.flavour == "GPIOTristate":
            self.pads = _TristatePads(self.npins)
            self.pad_in = self.pads.i
            return gpio.GPIOTristate(self.pads, with_irq=True)
        raise MachineryError(self.flavour)

    def client_regs(self):
        g = self.client
        return dict(mode=g._mode, edge=g._edge, **{"in": g._in})

    def client_ops(self):
        return [("w", r, p) for r in self.cfg_regs for p in self.cfg_menu] + ([("r", "in")] if self.read_in else [])

    def client_inputs(self):
        return list(range(1 << self.npins)) if self.pad_menu is None else list(self.pad_menu)

    def bind_client(self, D):
        self.i_pad = D.i(self.pad_in)
        self.i_in = D.i(self.client._in.status)

    def drive_client(self, v, cin):
        v[self.i_pad] = cin

    def client_init(self):
        return (0, 0, 0, 0) if self.strict_change else (0, 0, 0)

    def client_step(self, v, cenv, op, cin, clear):
        mode, edge, prev = cenv[:3]
        now = v[self.i_in]
        level = 0
        for n in range(self.npins):
            x, x_prev = (now >> n) & 1, (prev >> n) & 1
            if (mode >> n) & 1:
                active = x != x_prev                      # Change
                what = ("change", x)
                if self.strict_change and active and (cenv[3] >> n) & 1 and (clear >> n) & 1:
                    # manual configuration only (see the note in register_all): every change counted as an event of its own
                    return 0, cenv, ("gpio.change.merged", f"Change mode, pin {n}: the input changed in two consecutive cycles; the second change coincides with the "
                                                           "acknowledge of the event and is not retained (the active pulse has no new rising edge)")
            elif (edge >> n) & 1:
                active = x == 0                            # Edge, falling: the event is the arrival at 0
                what = ("falling", x)
            else:
                active = x == 1                            # Edge, rising: the event is the arrival at 1
                what = ("rising", x)
            if active:
                level |= 1 << n
                if x != x_prev:
                    self.seen.add(what)
        if op[0] == "w":
            if op[1] == "mode":
                mode = op[2]
            elif op[1] == "edge":
                edge = op[2]
        return level, ((mode, edge, now, level) if self.strict_change else (mode, edge, now)), None

    def explain(self, cenv):
        return "mode %s, edge %s, previous input %s" % tuple(bin(x) for x in cenv[:3])

    def client_cover(self):
        return dict(input_edges_that_fired=sorted("%s->%d" % w for w in self.seen))

    def client_vacuity(self):
        need = {("rising", 1)}
        if any(m & 1 for m in self.cfg_menu) or any(m & 2 for m in self.cfg_menu):
            if "edge" in self.cfg_regs:
                need |= {("falling", 0)}
            if "mode" in self.cfg_regs:
                need |= {("change", 0), ("change", 1)}
        if not need <= self.seen:
            return f"input edges not all exercised: {need - self.seen}"
        return None


# ---------------------------------------------------------------------------------------------------
# UART
# ---------------------------------------------------------------------------------------------------
class _PhyStub:
    """what UART.__init__ needs of a PHY: `sink` (bytes to transmit) and `source` (received bytes)"""
    def __init__(self):
        self.sink = stream.Endpoint([("data", 8)])
        self.source = stream.Endpoint([("data", 8)])


RX_LATENCY = 3


class UartHarness(ClientHarness):
    """model = (bytes in the RX direction not yet removed by software, cycles the oldest of them has been invisible, TX bytes stored)
    client inputs = (phy.sink.ready, byte delivered by phy.source or -1)"""
    tag = "uart"
    src_names = ("tx", "rx")        # UART_EV_TX = 0x1, UART_EV_RX = 0x2 (litex/soc/software/include/hw/flags.h)
    kinds = ("rising", "rising")

    def __init__(self, name, dw, side, depth=2, rx_we=False, bytes_=(0x41, 0xBE), **kw):
        ClientHarness.__init__(self, name, dw, **kw)
        self.side, self.depth, self.rx_we, self.bytes = side, depth, rx_we, tuple(bytes_)
        self.pops = self.pops_with_more = self.tx_full = self.rx_dropped = self.pop_by_read = 0

    def make_client(self):
        from litex.soc.cores.uart import UART
        self.phy = _PhyStub()
        return UART(self.phy, tx_fifo_depth=self.depth, rx_fifo_depth=self.depth, rx_fifo_rx_we=self.rx_we)

    def client_regs(self):
        u = self.client
        return dict(rxtx=u._rxtx, txfull=u._txfull, rxempty=u._rxempty)

    def client_ops(self):
        ops = []
        if self.side in ("tx", "both"):
            ops += [("w", "rxtx", self.bytes[0])]
        if self.side in ("rx", "both"):
            ops += [("r", "rxtx")]
        return ops

    def client_inputs(self):
        rdy = (0, 1) if self.side in ("tx", "both") else (1,)
        rx = ((-1,) + self.bytes) if self.side in ("rx", "both") else (-1,)
        return [(a, b) for a in rdy for b in rx]

    def bind_client(self, D):
        u, p, g = self.client, self.phy, D.i
        self.s = dict(tx_ready=g(u.tx_fifo.sink.ready), rx_valid=g(u.rx_fifo.source.valid), rx_pop=g(u.rx_fifo.source.ready),
                      rx_room=g(u.rx_fifo.sink.ready), txfull=g(u._txfull.status), rxempty=g(u._rxempty.status), head=g(u._rxtx.w),
                      phy_tx_valid=g(p.sink.valid), phy_tx_ready=g(p.sink.ready), phy_rx_valid=g(p.source.valid), phy_rx_data=g(p.source.data))

    def drive_client(self, v, cin):
        rdy, rx = cin
        s = self.s
        v[s["phy_tx_ready"]] = rdy
        v[s["phy_rx_valid"]] = int(rx >= 0)
        v[s["phy_rx_data"]] = rx if rx >= 0 else 0

    def client_init(self):
        return ((), 0, 0)

    def client_step(self, v, cenv, op, cin, clear):
        rxq, gap, txn = cenv
        rdy, rx = cin
        s = self.s
        notfull, notempty = v[s["tx_ready"]], v[s["rx_valid"]]
        # the two flags software polls are the complements of the event levels
        if v[s["txfull"]] != 1 - notfull or v[s["rxempty"]] != 1 - notempty:
            return 0, cenv, ("uart.flags", f"TXFULL = {v[s['txfull']]}, RXEMPTY = {v[s['rxempty']]} but TX FIFO writable = {notfull}, RX FIFO readable = {notempty}")
        if txn < self.depth and not notfull:
            return 0, cenv, ("uart.tx.notfull", f"TX FIFO of depth {self.depth} reports full with {txn} byte(s) stored")
        if not notfull:
            self.tx_full += 1
        # TX occupancy
        if op[0] == "w" and op[1] == "rxtx" and notfull:
            txn += 1
        if v[s["phy_tx_valid"]] and rdy:
            if txn == 0:
                return 0, cenv, ("uart.tx.spurious", "the PHY is offered a byte although every written byte has been transmitted")
            txn -= 1
        # RX: acknowledging the rx event (or reading RXTX when rx_fifo_rx_we) removes exactly the oldest byte
        by_read = self.rx_we and op[0] == "r" and op[1] == "rxtx"
        pop = int(bool((clear >> 1) & 1 or by_read))
        if v[s["rx_pop"]] != pop:
            return 0, cenv, ("uart.rx.pop", f"RX FIFO read strobe = {v[s['rx_pop']]}, expected {pop} (rx event acknowledged in this cycle: {(clear >> 1) & 1}, "
                                            f"RXTX read with rx_fifo_rx_we: {int(by_read)})")
        rxq = list(rxq)
        if notempty:
            if not rxq:
                return 0, cenv, ("uart.rx.spurious", f"RXEMPTY = 0 (RXTX = {v[s['head']]:#x}) although every received byte has been removed")
            if v[s["head"]] != rxq[0]:
                return 0, cenv, ("uart.rx.head", f"RXTX shows {v[s['head']]:#x}, the oldest byte not yet removed is {rxq[0]:#x} (queue {[hex(b) for b in rxq]})")
            gap = 0
            if pop:
                rxq.pop(0)
                self.pops += 1
                self.pop_by_read += int(by_read)
                if rxq:
                    self.pops_with_more += 1
        elif rxq:
            gap += 1
            if gap > RX_LATENCY:
                return 0, cenv, ("uart.rx.lost", f"received byte {rxq[0]:#x} has not become visible for {gap} cycles (queue {[hex(b) for b in rxq]})")
        if rx >= 0:
            if v[s["rx_room"]]:
                rxq.append(rx)
            else:
                self.rx_dropped += 1
        return notfull | (notempty << 1), (tuple(rxq), gap, txn), None

    def explain(self, cenv):
        return f"RX bytes {[hex(b) for b in cenv[0]]}, TX bytes stored {cenv[2]}"

    def client_cover(self):
        return dict(rx_removed=self.pops, rx_removed_with_more_waiting=self.pops_with_more, rx_removed_by_rxtx_read=self.pop_by_read,
                    tx_full_cycles=self.tx_full, rx_dropped_when_full=self.rx_dropped)

    def vacuity(self):
        # one direction per configuration: the other direction's event fires once (TX FIFO not full out of reset) or never
        active = dict(tx=(0,), rx=(1,), both=(0, 1))[self.side]
        for i in active:
            if self.edges[i] < 2:
                return f"event '{self.src_names[i]}' fired fewer than twice"
        if self.side in ("rx", "both") and not (self.pops and self.pops_with_more):
            return "rx removal with a second byte waiting not exercised"
        if self.side in ("tx", "both") and not self.tx_full:
            return "TX FIFO never full"
        if self.rx_we and not self.pop_by_read:
            return "removal by RXTX read not exercised"
        return EvHarness.vacuity(self)


# ---------------------------------------------------------------------------------------------------
def register_all(REGISTRY):
    if any(isinstance(k, str) and k.startswith("Timer(") for k in REGISTRY):
        return
    def reg(name, tier, factory):
        if name in REGISTRY:
            raise MachineryError(f"duplicate configuration {name}")
        REGISTRY[name] = (tier, factory)
    def timer(name, tier, dw, **kw):
        reg(name, tier, lambda: TimerHarness(name, dw, **kw))
    def gpio(name, tier, dw, n, **kw):
        reg(name, tier, lambda: GpioHarness(name, dw, n, **kw))
    def uart(name, tier, dw, side, **kw):
        reg(name, tier, lambda: UartHarness(name, dw, side, **kw))
    E2 = ("ev_pending", "ev_status")
    timer("Timer(load/reload<=2),csr8", "quick", 8)
    timer("Timer(load/reload 0,2),csr32", "quick", 32, values=(0, 2))
    timer("Timer(load/reload<=2,update_value),csr32", "thorough", 32, with_value=True)
    timer("Timer(load/reload 0,1,3),csr8", "thorough", 8, values=(0, 1, 3))
    gpio("GPIOIn(1 pin,irq),csr8", "quick", 8, 1)
    gpio("GPIOTristate(1 pin,irq),csr32", "quick", 32, 1, flavour="GPIOTristate")
    gpio("GPIOIn(1 pin,irq),csr32", "thorough", 32, 1)
    # two pins: the product of the two pins' pipelines, events and configuration bits only closes with a reduced bus alphabet
    small = dict(pend_menu=(1, 2, 3), en_menu=(3,), reads=(), read_in=False)
    gpio("GPIOIn(2 pins,irq,reset configuration),csr8", "quick", 8, 2, cfg_menu=(), **small)
    # only the edge polarity of pin 1 is written (0 <-> 1), pin 0 stays at its reset setting: per-pin wiring of the edge register
    gpio("GPIOIn(2 pins,irq,edge of pin 1 writable),csr8", "quick", 8, 2, cfg_menu=(0, 2), cfg_regs=("edge",),
         pend_menu=(3,), en_menu=(3,), reads=(), read_in=False)
    # mixed configurations: only the mode bit of pin 1 is written (Edge <-> Change) while pin 0 stays in Edge mode: per-pin wiring of the mode register
    gpio("GPIOIn(2 pins,irq,mode of pin 1 writable),csr8", "quick", 8, 2, cfg_menu=(0, 2), cfg_regs=("mode",),
         pend_menu=(3,), en_menu=(3,), reads=(), read_in=False)
    gpio("GPIOIn(2 pins,irq,pin 0 configurable),csr8", "thorough", 8, 2, cfg_menu=(1,), **small)
    gpio("GPIOIn(2 pins,irq,pin 1 configurable),csr32", "thorough", 32, 2, cfg_menu=(2,), **small)
    gpio("GPIOTristate(2 pins,irq,reset configuration),csr32", "thorough", 32, 2, flavour="GPIOTristate", cfg_menu=(), **small)
    # Not part of any tier (selected only with VERIF_C15_MANUAL=1): reads "mode 1 = any change" as "every change is an event of its own".  The real
    # _GPIOIRQ merges two changes in consecutive cycles into one active pulse, so the second one is lost when it meets the acknowledge (observation
    # reported to the main session; the property speaks about the manager's behaviour w.r.t. its trigger, which is respected).
    gpio("GPIOIn(1 pin,irq,every change is an event),csr8", "manual", 8, 1, strict_change=True)
    uart("UART(tx,fifo 2),csr8", "quick", 8, "tx", bytes_=(0x41,))
    uart("UART(rx,fifo 2,one byte value),csr8", "quick", 8, "rx", bytes_=(0x41,), en_menu=(0, 3), reads=E2)
    uart("UART(rx,fifo 2,one byte value,rx_fifo_rx_we),csr32", "quick", 32, "rx", bytes_=(0x41,), rx_we=True, en_menu=(0, 3), reads=E2)
    uart("UART(tx,fifo 2),csr32", "thorough", 32, "tx", bytes_=(0x41,))
    uart("UART(rx,fifo 2,two byte values),csr8", "thorough", 8, "rx", en_menu=(0, 3), reads=E2)
    uart("UART(rx,fifo 2,two byte values,rx_fifo_rx_we),csr8", "thorough", 8, "rx", rx_we=True, en_menu=(0, 3), reads=E2)
    uart("UART(tx+rx,fifo 2,one byte value),csr8", "thorough", 8, "both", bytes_=(0x41,), pend_menu=(1, 2, 3), en_menu=(3,), reads=())
    uart("UART(rx,fifo 4,one byte value),csr8", "thorough", 8, "rx", depth=4, bytes_=(0x41,), en_menu=(0, 3), reads=E2)
    uart("UART(tx,fifo 4),csr8", "thorough", 8, "tx", depth=4, bytes_=(0x41,), en_menu=(0, 3), reads=E2)


# Registration into the module the runner loads (works whichever of the two modules is imported first).
import checks.c15_events as _E  # noqa: E402
register_all(_E.REGISTRY)
for _a in ASSUMPTIONS:
    if _a not in _E.ASSUMPTIONS:
        _E.ASSUMPTIONS.append(_a)
