"""C19 — SPI part: SPIMaster pin-level monitor (mode 0, MSB first, chip-select framing, exact pulse count and clock period) with a
mode-0 slave model on MISO, and SPISlave against an ideal master.  The references are the SPI mode-0 bus rules and the docstrings of
the two cores, not their FSMs."""
import fsmc  # noqa
from migen import *
from litex.soc.interconnect import csr_bus
from fsmc.explore import Harness
from fsmc.design import MachineryError

BUSY = 8


def words_for(dw, full):
    m = (1 << dw) - 1
    if full == "all":
        return list(range(1 << dw))
    base = [int("A5" * 4, 16) & m, int("69" * 4, 16) & m, m, 1, 1 << (dw - 1), 0][:6 if full else 3]
    out = []
    for w in base:
        if w not in out:
            out.append(w)
    return out


class _MasterDUT(Module):
    def __init__(self, dw, div, mode, ncs, with_csr):
        from litex.soc.cores.spi.spi_master import SPIMaster
        self.pads = pads = Record([("clk", 1), ("cs_n", ncs), ("mosi", 1), ("miso", 1)])
        self.submodules.spi = spi = SPIMaster(pads, dw, sys_clk_freq=div*1e6, spi_clk_freq=1e6, with_csr=with_csr, mode=mode)
        if with_csr:
            spi.add_clk_divider()
            self.bus = csr_bus.Interface(data_width=32, address_width=14)
            self.submodules.bank = csr_bus.CSRBank(spi.get_csrs(), address=0, bus=self.bus)


class SpiMasterHarness(Harness):
    """env = (xfer, cs, last, mon, regs, nsw, nx)
       xfer: None | (word, L, sword, pos, age)   sword = the L bits the slave model answers (MSB first), pos = falling pin-clock edges seen
       cs:   value of the chip-select register in the previous cycle; last: None | (L, expected low L bits of miso) of the last transfer
       mon:  (pclk, pmosi, pcsn, pulses, outbits, inbits, tsr, thigh, idle, boot) pin history for the protocol rules
       regs: CSR front end only - register values visible to the core in this cycle (length, mosi, cs, cs_mode, loopback, start pulse); nsw: answer for the pending start; nx: completed transfers (CSR front end: bounded by max_xfers)"""
    live_queries = (("spi.master.stuck", BUSY, 0, (), "a transfer never completes (done stays 0 for ever)"),)

    def __init__(self, name, dw=4, div=2, mode="raw", cs_mode=0, loopback=0, ncs=1, full_words=False, swords="few", lengths=None, csr=False, overlap=True, cap=None, nwords=None, max_xfers=2,
                 build_div=None):
        self.name, self.dw, self.div, self.mode, self.cs_mode, self.loopback, self.ncs = name, dw, div, mode, cs_mode, loopback, ncs
        self.build_div = build_div or div      # the divider the core is built for (reset value of the run-time programmable clk_divider register)
        self.words = words_for(dw, full_words)[:nwords] if nwords else words_for(dw, full_words)
        self.lengths = list(lengths or range(1, dw + 1))
        self.swords_kind = swords
        self.csr = csr
        self.overlap = overlap
        self.completed = 0
        self.b2b = 0
        self.overlaps = 0
        self.allhigh = (1 << ncs) - 1
        self.csvals = [1] if ncs == 1 else ([1, 2] if not cs_mode else [0, 1, 2])
        if cap:
            self.cap = cap
        self.max_xfers = max_xfers
        if csr:
            self.conf_every = 211

    # -- construction ---------------------------------------------------------------------------
    def build(self):
        self.dut = _MasterDUT(self.dw, self.build_div, self.mode, self.ncs, self.csr)
        return self.dut

    def bind(self, D):
        s, p = self.dut.spi, self.dut.pads
        g = lambda x: D.i(x)
        self.i = dict(start=g(s.start), length=g(s.length), done=g(s.done), irq=g(s.irq), mosi=g(s.mosi), miso=g(s.miso), cs=g(s.cs),
                      csm=g(s.cs_mode), lb=g(s.loopback), divr=g(s.clk_divider), clk=g(p.clk), csn=g(p.cs_n), pmosi=g(p.mosi), pmiso=g(p.miso))
        if self.csr:
            b = self.dut.bus
            self.b = dict(adr=g(b.adr), we=g(b.we), dat_w=g(b.dat_w), re=g(b.re))
            names = {c.name: k for k, c in enumerate(self.dut.bank.simple_csrs)}
            self.adr = {}
            for need in ("control", "status", "mosi", "miso", "cs", "loopback", "clk_divider"):
                hits = [a for n, a in names.items() if n.rstrip("0123456789") in (need, "spi_" + need)]
                if len(hits) != 1:
                    raise MachineryError(f"SPIMaster CSR {need} not found in {sorted(names)}")
                self.adr[need] = hits[0]
            self.i_status = g(s._status.status)
            self.i_misocsr = g(s._miso.status)

    def swords(self, L):
        if self.loopback:
            return [0]
        if (self.swords_kind == "all" and L <= 4) or L <= 2:
            return list(range(1 << L))
        m = (1 << L) - 1
        out = []
        for w in (int("A5" * 4, 16) & m, int("3C" * 4, 16) & m, m, 0):
            if w not in out:
                out.append(w)
        return out

    def env_init(self):
        mon = (0, 0, 0, 0, 0, 0, 0, 0, 0, 1)
        return (None, (1, self.cs_mode if not self.csr else 0), None, mon, (0, 0, 1, 0, 0, 0) if self.csr else None, 0, 0)

    # -- environment ----------------------------------------------------------------------------
    def choices(self, env):
        xfer = env[0]
        if self.csr:
            return self._csr_choices(env)
        if xfer is None:
            out = [("i",)]
            for w in self.words:
                for L in self.lengths:
                    for sw in self.swords(L):
                        out.append(("s", w, L, sw))
            if len(self.csvals) > 1:
                out += [("cs", c) for c in self.csvals if c != env[1][0]]
            return out
        return [("i",), ("o",)] if self.overlap else [("i",)]

    def ports(self, env, ch):
        """values of the core's control inputs in this cycle: (start, length, mosi word, cs, cs_mode, loopback)"""
        if self.csr:
            L, mosi, cs, csm, lb, sp = env[4]
            return (sp, L, mosi, cs, csm, lb)
        xfer, cs, last = env[0], env[1][0], env[2]
        m = (1 << self.dw) - 1
        if ch[0] == "s":
            return (1, ch[2], ch[1], cs, self.cs_mode, self.loopback)
        if ch[0] == "o":
            return (1, xfer[1], xfer[0] ^ m, cs, self.cs_mode, self.loopback)
        if ch[0] == "cs":
            return (0, last[0] if last else 0, 0, ch[1], self.cs_mode, self.loopback)
        if xfer is not None:
            return (0, xfer[1], xfer[0], cs, self.cs_mode, self.loopback)
        return (0, last[0] if last else 0, 0, cs, self.cs_mode, self.loopback)

    def cur_xfer(self, v, env, ch):
        """the transfer as of this cycle: a new one if a start is accepted now, else the running one with the slave's bit position advanced when
        the clock pin is seen low after having been high"""
        xfer = env[0]
        if xfer is None:
            st, L, w, cs, csm, lb = self.ports(env, ch)
            if st:
                if not (1 <= L <= self.dw):
                    raise MachineryError("environment issued a start with an illegal length")
                return (w, L, ch[3] if not self.csr else env[5], 0, 0), True
            return None, False
        word, L, sword, pos, age = xfer
        if env[3][0] == 1 and v[self.i["clk"]] == 0:
            pos += 1
        return (word, L, sword, pos, age), False

    def drive(self, v, env, ch):
        i = self.i
        if self.csr:
            b = self.b
            v[b["we"]] = v[b["re"]] = v[b["adr"]] = v[b["dat_w"]] = 0
            if ch[0] == "w":
                v[b["we"]], v[b["adr"]], v[b["dat_w"]] = 1, self.adr[ch[1]], ch[2]
        else:
            st, L, w, cs, csm, lb = self.ports(env, ch)
            v[i["start"]], v[i["length"]], v[i["mosi"]], v[i["cs"]], v[i["csm"]], v[i["lb"]] = st, L, w, cs, csm, lb
            v[i["divr"]] = self.div
        # mode-0 slave model: deselected level 1; selected: current answer bit
        x, _ = self.cur_xfer(v, env, ch)
        if v[i["csn"]] == self.allhigh or x is None or x[3] >= x[1]:
            v[i["pmiso"]] = 1
        else:
            v[i["pmiso"]] = (x[2] >> (x[1] - 1 - x[3])) & 1

    # -- monitor ---------------------------------------------------------------------------------
    def exp_bit(self, word, L, k):
        return (word >> (self.dw - 1 - k)) & 1 if self.mode == "raw" else (word >> (L - 1 - k)) & 1

    def observe(self, v, env, ch):
        i = self.i
        xfer0, (pcs, pcsm), last, mon = env[0], env[1], env[2], env[3]
        pclk, pmosi, pcsn, pulses, outbits, inbits, tsr, thigh, idle, boot = mon
        st, L_port, w_port, cs_now, csm, lb = self.ports(env, ch)
        div = self.div
        allhigh = self.allhigh
        clk, csn, mosi, done, irq = v[i["clk"]], v[i["csn"]], v[i["pmosi"]], v[i["done"]], v[i["irq"]]
        xfer, started = self.cur_xfer(v, env, ch)
        if self.csr:
            if (v[self.i_status] & 1) != done or ((v[self.i_status] >> 1) & 1) != int(self.mode == "aligned") or v[self.i_misocsr] != v[i["miso"]]:
                return env, ("spi.master.csr_status", f"status CSR = {v[self.i_status]:#x} / miso CSR = {v[self.i_misocsr]:#x} do not show done = {done}, mode, miso = {v[i['miso']]:#x}"), 0
        if xfer0 is None:
            if started:
                if done:
                    return env, ("spi.master.done", "done = 1 in the cycle of an accepted start"), 0
                if idle == 0 and last is not None:
                    self.b2b += 1
            else:
                if not done:
                    return env, ("spi.master.done", "done = 0 while no transfer is in progress"), 0
                if last is not None and (v[i["miso"]] & ((1 << last[0]) - 1)) != last[1]:
                    return env, ("spi.master.miso", f"miso = {v[i['miso']]:#x}: low {last[0]} bits expected {last[1]:#x} (the bits presented at the rising clock edges, MSB first)"), 0
        else:
            if done:
                return env, ("spi.master.done", "done = 1 during a transfer"), 0
            if st:
                self.overlaps += 1
        word, L, sword, pos, age = xfer if xfer is not None else (0, 0, 0, 0, 0)
        rising = clk and not pclk
        falling = pclk and not clk
        if clk and xfer is None:
            return env, ("spi.master.clk_idle", "clock pin high while no transfer is in progress (CPOL = 0)"), 0
        want = allhigh & ~pcs
        if rising:
            if pulses + 1 > L:
                return env, ("spi.master.pulses", f"clock pulse {pulses + 1} in a transfer of length {L}"), 0
            if csn != want or pcsn != want:
                return env, ("spi.master.cs_framing", f"rising clock edge with cs_n = {csn:#b} (previous cycle {pcsn:#b}); the selected pattern {want:#b} must be set up one cycle earlier"), 0
            if mosi != pmosi:
                return env, ("spi.master.mosi_stable", "MOSI changes in the cycle of the rising clock edge"), 0
            eb = self.exp_bit(word, L, pulses)
            if mosi != eb:
                return env, ("spi.master.mosi_bit", f"bit {pulses} of word {word:#x} (length {L}, {self.mode}): MOSI = {mosi}, expected {eb}"), 0
            if pulses and tsr + 1 != div:
                return env, ("spi.master.clk_period", f"{tsr + 1} cycles between rising clock edges, clk_divider = {div}"), 0
            pulses += 1
            outbits = (outbits << 1) | mosi
            inbits = (inbits << 1) | v[i["pmiso"]]
            tsr, thigh = 0, 1
        else:
            tsr += 1
            if clk:
                thigh += 1
                if mosi != pmosi:
                    return env, ("spi.master.mosi_stable", "MOSI changes while the clock pin is high"), 0
        if falling and thigh not in (div//2, div - div//2):
            return env, ("spi.master.clk_high", f"clock high for {thigh} cycles, clk_divider = {div}"), 0
        if not boot:
            if pcsm:
                if csn != want:
                    return env, ("spi.master.cs_manual", f"manual mode: cs_n = {csn:#b}, cs register was {pcs:#b}"), 0
            else:
                if csn not in (allhigh, want):
                    return env, ("spi.master.cs_other", f"cs_n = {csn:#b}: a chip that is not selected (cs = {pcs:#b}) is enabled"), 0
                if csn == allhigh and pcsn != allhigh and xfer is not None and pulses:
                    if pulses != L or clk or pclk:
                        return env, ("spi.master.cs_framing", f"cs_n released after {pulses} of {L} clock pulses (clock pin {pclk}->{clk})"), 0
                if xfer is None and csn != allhigh and idle >= 2:
                    return env, ("spi.master.cs_idle", "cs_n still low two cycles after the end of the transfer"), 0
        if boot:
            csn = allhigh          # cs_n resets to 0 for one cycle (register reset value): not judged
        finished = False
        if irq:
            if xfer is None:
                return env, ("spi.master.irq", "irq outside a transfer"), 0
            if pulses != L:
                return env, ("spi.master.pulses", f"irq after {pulses} clock pulses, length = {L}"), 0
            if clk:
                return env, ("spi.master.irq", "irq while the clock pin is still high"), 0
            finished = True
        flags = 0
        if xfer is not None:
            if not finished:
                flags |= BUSY
            age += 1
            if age > (L + 3)*div + 4:
                return env, ("spi.master.timeout", f"no irq {age} cycles after start (length {L}, divider {div})"), 0
        if finished:
            last = (L, (outbits if lb else inbits) & ((1 << L) - 1))
            self.completed += 1
            xfer2 = None
            mon2 = (clk, mosi, csn, 0, 0, 0, 0, 0, 0, 0)
        elif xfer is not None:
            xfer2 = (word, L, sword, pos, age)
            mon2 = (clk, mosi, csn, pulses, outbits, inbits, tsr, thigh, 0, 0)
        else:
            xfer2 = None
            mon2 = (clk, mosi, csn, 0, 0, 0, 0, 0, min(idle + 1, 2), 0)
        regs2, nsw2 = None, 0
        if self.csr:
            regs2, nsw2 = self._csr_next(env, ch)
        return (xfer2, (cs_now, csm), last, mon2, regs2, nsw2, min(env[6] + int(finished), self.max_xfers) if self.csr else 0), None, flags

    # -- CSR front end ---------------------------------------------------------------------------
    def _csr_choices(self, env):
        xfer, regs = env[0], env[4]
        L, mosi, cs, csm, lb, sp = regs
        out = [("i",)]
        if xfer is None and not sp and env[6] < self.max_xfers:
            for w in self.words:
                if w != mosi:
                    out.append(("w", "mosi", w))
            for L2 in self.lengths:
                for sw in self.swords(L2)[:2]:
                    out.append(("w", "control", (L2 << 8) | 1, sw))
                if L2 != L and self.csr == "free":
                    out.append(("w", "control", (L2 << 8), 0))
            if env[2] is None or self.csr == "free":
                # mode registers: programmed before the first transfer (keeps the product with the transfer history small)
                out.append(("w", "loopback", lb ^ 1))
                for c in self.csvals:
                    if c != cs:
                        out.append(("w", "cs", c | (csm << 16)))
                out.append(("w", "cs", cs | ((csm ^ 1) << 16)))
        elif xfer is not None:
            out.append(("w", "control", (L << 8) | 1, 0))
            if self.csr == "free":
                out.append(("w", "mosi", mosi ^ ((1 << self.dw) - 1)))
        return out

    def _csr_next(self, env, ch):
        L, mosi, cs, csm, lb, sp = env[4]
        nsw = env[5]
        sp = 0
        if ch[0] == "w":
            r, val = ch[1], ch[2]
            if r == "control":
                L, sp = (val >> 8) & 0xFF, val & 1
                if sp:
                    nsw = ch[3]
            elif r == "mosi":
                mosi = val & ((1 << self.dw) - 1)
            elif r == "cs":
                cs, csm = val & self.allhigh, (val >> 16) & 1
            elif r == "loopback":
                lb = val & 1
        return (L, mosi, cs, csm, lb, sp), nsw

    def cover_report(self):
        return dict(transfers_completed=self.completed, back_to_back=self.b2b, overlapping_starts=self.overlaps)

    def vacuity(self):
        if not self.completed:
            return "no transfer completed"
        if self.overlap and not self.overlaps:
            return "no overlapping start"
        return None


# ---------------------------------------------------------------------------------------------------
# SPI slave against an ideal mode-0 master
# ---------------------------------------------------------------------------------------------------
class SpiSlaveHarness(Harness):
    """env = (run, gap, res, mon)
       run: None | (wm, L, ws, lead, n): transfer in progress, n = index into the master's waveform
       gap: idle cycles since the end of the last transfer (cap); res: None | (L, bits sent) result the slave must show while idle
       mon: (starts, irqs, since_end) pulse counters of the current / last transfer"""
    live_queries = (("spi.slave.stuck", BUSY, 0, (), "chip select released for ever but done never returns"),)

    def __init__(self, name, dw=4, half=4, skew=0, loopback=0, lengths=None, nwords=3, foreign=0, mingap=4):
        self.name, self.dw, self.h, self.skew, self.loopback = name, dw, half, skew, loopback
        self.foreign = foreign      # clock pulses of a transfer to ANOTHER slave on the shared clk / mosi lines (this slave's cs_n stays high)
        self.lengths = list(lengths if lengths is not None else range(0, dw + 1))
        m = (1 << dw) - 1
        self.wm = words_for(dw, True)[:nwords]
        self.ws = [int("69" * 4, 16) & m, int("A5" * 4, 16) & m][:2] if not loopback else [0]
        self.leads = (3, 5)
        self.lag = 1
        self.mingap = mingap     # idle pad cycles between two transfers: every gap >= mingap is explored (4: the previous irq / done have been seen)
        self.wave = {}
        self.completed = 0
        self.lens = set()

    def build(self):
        from litex.soc.cores.spi.spi_slave import SPISlave
        self.pads = Record([("clk", 1), ("cs_n", 1), ("mosi", 1), ("miso", 1)])
        self.dut = SPISlave(self.pads, self.dw)
        return self.dut

    def bind(self, D):
        s, p = self.dut, self.pads
        g = D.i
        self.i = dict(clk=g(p.clk), csn=g(p.cs_n), pmosi=g(p.mosi), pmiso=g(p.miso), start=g(s.start), length=g(s.length), done=g(s.done),
                      irq=g(s.irq), mosi=g(s.mosi), miso=g(s.miso), lb=g(s.loopback))

    def waveform(self, wm, L, lead):
        """list of (cs_n, clk, mosi, index of the rising edge that happens in this cycle or -1); bits MSB first out of the low L bits of wm"""
        key = (wm, L, lead)
        w = self.wave.get(key)
        if w is None and wm == "F":
            # foreign traffic: cs_n high, L clock pulses, mosi alternating 1, 0, 1, ..
            w = []
            for k in range(L):
                w += [(1, 1, (k + 1) & 1, -1)] * self.h + [(1, 0, k & 1, -1)] * self.h
            self.wave[key] = w
        if w is None:
            bit = lambda k: (wm >> (L - 1 - k)) & 1 if 0 <= k < L else 0
            w = [(0, 0, bit(0), -1)] * lead
            for k in range(L):
                w += [(0, 1, bit(k), k if t == 0 else -1) for t in range(self.h)]
                for t in range(self.h):
                    nxt = bit(k + 1) if k + 1 < L else bit(k)
                    w.append((0, 0, bit(k) if t < self.skew else nxt, -1))
            w += [(0, 0, bit(L - 1) if L else bit(0), -1)] * self.lag
            self.wave[key] = w
        return w

    def env_init(self):
        return (None, 0, None, (0, 0, 9, 0, None))

    def choices(self, env):
        run, gap, res, mon = env
        if run is not None:
            return [("c",)]
        out = [("i",)]
        if self.foreign and gap >= self.mingap:
            out.append(("f",))
        if gap >= self.mingap:
            for wm in self.wm:
                for L in self.lengths:
                    if L and (wm & ((1 << L) - 1)) in [x & ((1 << L) - 1) for x in self.wm[:self.wm.index(wm)]]:
                        continue
                    for ws in self.ws:
                        for lead in self.leads:
                            out.append(("x", wm & ((1 << L) - 1), L, ws, lead))
        return out

    def _cur(self, env, ch):
        if ch[0] == "x":
            return (ch[1], ch[2], ch[3], ch[4], 0)
        if ch[0] == "f":
            return ("F", self.foreign, 0, 0, 0)
        return env[0]

    def drive(self, v, env, ch):
        i = self.i
        run = self._cur(env, ch)
        v[i["lb"]] = self.loopback
        if run is None:
            v[i["csn"]], v[i["clk"]], v[i["pmosi"]] = 1, 0, 0
            v[i["miso"]] = 0
        else:
            wm, L, ws, lead, n = run
            csn, clk, mosi, _ = self.waveform(wm, L, lead)[n]
            v[i["csn"]], v[i["clk"]], v[i["pmosi"]] = csn, clk, mosi
            v[i["miso"]] = ws

    def observe(self, v, env, ch):
        i = self.i
        run0, gap, res, mon = env
        starts, irqs, since_end, miso_r, carry = mon
        run = self._cur(env, ch)
        st, irq, done = v[i["start"]], v[i["irq"]], v[i["done"]]
        frun = None
        if run is not None and run[0] == "F":
            # traffic for another slave: this one is idle (judged by the idle branch below), only the foreign waveform advances
            frun, run = run, None
            self.foreign_cycles = getattr(self, "foreign_cycles", 0) + 1
        if run is not None and run[4] == 0:
            if res is not None and irqs == 0 and since_end <= 4:
                carry = res         # short gap: the irq of the previous transfer is still inside the synchroniser
            starts, irqs, since_end = 0, 0, 0
        if carry is not None and run is not None:
            if irq:
                L0, bits0 = carry
                if v[i["length"]] != L0:
                    return env, ("spi.slave.length", f"length = {v[i['length']]} at the irq of a transfer of {L0} clock pulses (next transfer {since_end} cycles behind)"), 0
                if (v[i["mosi"]] & ((1 << L0) - 1)) != bits0:
                    return env, ("spi.slave.mosi", f"mosi = {v[i['mosi']]:#x} at the irq: low {L0} bits expected {bits0:#x}"), 0
                carry, irq = None, 0
                self.short_gaps = getattr(self, "short_gaps", 0) + 1
            elif run[4] >= 4:
                return env, ("spi.slave.irq", "no irq for a transfer whose chip select was released for less than 4 cycles"), 0
        starts += st
        irqs += irq
        flags = 0
        if run is not None:
            wm, L, ws, lead, n = run
            wf = self.waveform(wm, L, lead)
            csn, clk, mosi, k = wf[n]
            if clk and k < 0 and v[i["pmiso"]] != miso_r:
                return env, ("spi.slave.miso_hold", "MISO changes while the clock pin is high (mode 0: shift on the falling edge)"), 0
            if k >= 0:
                # the master samples MISO on its rising edge
                exp = (wm >> (L - 1 - k)) & 1 if self.loopback else (ws >> (self.dw - 1 - k)) & 1
                if v[i["pmiso"]] != exp:
                    return env, ("spi.slave.miso_bit", f"rising edge {k}: MISO = {v[i['pmiso']]}, expected bit {self.dw - 1 - k} of {ws:#x} = {exp}" if not self.loopback
                                 else f"rising edge {k}: MISO = {v[i['pmiso']]}, loop-back of MOSI = {exp}"), 0
                if starts != 1:
                    return env, ("spi.slave.start", f"{starts} start pulses between chip select and the first clock edge"), 0
                miso_r = v[i["pmiso"]]
            if starts > 1:
                return env, ("spi.slave.start", "second start pulse in one transfer"), 0
            if irqs:
                return env, ("spi.slave.irq", "irq while the chip select is still asserted"), 0
            if starts and done:
                return env, ("spi.slave.done", "done = 1 during a transfer"), 0
            n += 1
            if n >= len(wf):
                run2, gap2, res2 = None, 0, (L, wm)
            else:
                run2, gap2, res2 = (wm, L, ws, lead, n), 0, res
            since2 = 0
        else:
            run2, gap2, res2 = None, min(gap + 1, self.mingap + 1), res
            if frun is not None:
                n = frun[4] + 1
                run2, gap2 = (frun[:4] + (n,) if n < len(self.waveform(frun[0], frun[1], frun[3])) else None), 0
            since2 = min(since_end + 1, 9)
            if st and res is not None:
                return env, ("spi.slave.start", "start pulse while the chip select is released"), 0
            if irqs > 1:
                return env, ("spi.slave.irq", "second irq pulse for one transfer"), 0
            if res is not None:
                if since2 > 4:
                    if irqs != 1:
                        return env, ("spi.slave.irq", f"{irqs} irq pulses within 4 cycles after the chip select was released"), 0
                    if starts != 1:
                        return env, ("spi.slave.start", f"{starts} start pulses in a transfer"), 0
                    if not done:
                        return env, ("spi.slave.done", "done = 0 more than 4 cycles after the chip select was released"), 0
                if irqs == 1 and not irq:
                    L, bits = res
                    if v[i["length"]] != L:
                        return env, ("spi.slave.length", f"length = {v[i['length']]} after a transfer of {L} clock pulses"), 0
                    if (v[i["mosi"]] & ((1 << L) - 1)) != bits:
                        return env, ("spi.slave.mosi", f"mosi = {v[i['mosi']]:#x}: low {L} bits expected {bits:#x}"), 0
                    if since2 == 9 and gap2 > self.mingap:
                        pass
                if since2 <= 4 and not (irqs == 1 and not irq):
                    flags |= BUSY
                if since2 == 5:
                    self.completed += 1
                    self.lens.add(res[0])
            elif not done and since2 > 4:
                return env, ("spi.slave.done", "done = 0 although no transfer ever started"), 0
        return (run2, gap2, res2, (starts, irqs, since2, miso_r, carry)), None, flags

    def cover_report(self):
        return dict(transfers_completed=self.completed, lengths=sorted(self.lens), foreign_traffic_cycles=getattr(self, "foreign_cycles", 0),
                    short_gap_transfers=getattr(self, "short_gaps", 0))

    def vacuity(self):
        if self.foreign and not getattr(self, "foreign_cycles", 0):
            return "no foreign traffic explored"
        if self.mingap < 4 and not getattr(self, "short_gaps", 0):
            return "no transfer followed its predecessor within 4 cycles"
        return None if self.completed else "no transfer completed"
