#!/bin/sh
# tools/verify_seed.sh <Cnn> [extra check args]: confirm a seeded change (tests unchanged, demo separates) and run our check on it
ID=$1; shift; PROP=$(echo $ID | cut -c1-3)
WT=/tmp/seed/$ID
OUT=/verif/seeded/$ID
mkdir -p $OUT
cp $WT/seed_out/patch.diff $WT/seed_out/demo.py $WT/seed_out/meta.json $OUT/ 2>/dev/null
cd $WT
# put the worktree into exactly the state of the delivered patch (agents share one git stash, do not rely on it)
git checkout -q -- litex
git apply seed_out/patch.diff || { echo "patch.diff does not apply"; exit 3; }
git diff --stat -- litex | tail -1
# demo on changed code
timeout 900 /venv/bin/python seed_out/demo.py $WT > $OUT/demo_changed.log 2>&1; DC=$?
# tests on changed code
PYTHONPATH=$WT timeout 1500 /venv/bin/python -m pytest -q -p no:cacheprovider --timeout=900 --continue-on-collection-errors --junitxml=$OUT/tests_changed.xml test/ > $OUT/tests_changed.log 2>&1
# demo on original code
git apply -R seed_out/patch.diff
timeout 900 /venv/bin/python seed_out/demo.py $WT > $OUT/demo_original.log 2>&1; DO=$?
git apply seed_out/patch.diff
/venv/bin/python - $OUT <<'PY'
import sys, json, xml.etree.ElementTree as ET
out = sys.argv[1]
stable = set(json.load(open('/root/.vp/BASELINE.json'))['stable_pass'])
ok = set()
for tc in ET.parse(out + '/tests_changed.xml').iter('testcase'):
    if not any(c.tag in ('failure', 'error', 'skipped') for c in tc):
        ok.add(f"{tc.get('classname')}::{tc.get('name')}")
print("stable tests passing with the change:", len(stable & ok), "/", len(stable), "missing:", sorted(stable - ok)[:5])
PY
echo "demo exit: original=$DO changed=$DC"
cd /verif
VERIF_REPO=$WT ./check $PROP "$@" > $OUT/check_quick.log 2>&1; echo "check $PROP quick exit=$?"
grep -E "violation cfg|^C[0-9]+ tier" $OUT/check_quick.log | sed 's/replay=.*//' | head -5
rm -f $OUT/tests_changed.xml
