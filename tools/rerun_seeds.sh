#!/bin/sh
# tools/rerun_seeds.sh [ids...]: re-apply every kept seeded change to a scratch worktree and run the quick check of its property on it.
# Prints one line per seed; a seed that is no longer detected is marked MISSED.
WT=/tmp/seedwt
cd /repo && git worktree remove --force $WT 2>/dev/null; git worktree prune
git worktree add -q --detach $WT HEAD || exit 3
IDS="$@"; [ -z "$IDS" ] && IDS=$(ls /verif/seeded)
mkdir -p /tmp/seed_rerun
for ID in $IDS; do
  PROP=$(echo $ID | cut -c1-3)
  cd $WT && git checkout -q -- . && git apply /verif/seeded/$ID/patch.diff 2>/dev/null || { echo "$ID patch does not apply to HEAD"; continue; }
  cd /verif && VERIF_REPO=$WT ./check $PROP > /tmp/seed_rerun/$ID.log 2>&1; RC=$?
  N=$(grep -c "^VIOLATION" /tmp/seed_rerun/$ID.log)
  if [ $RC -eq 1 ] && [ $N -gt 0 ]; then echo "$ID caught ($N): $(grep -m1 'violation cfg' /tmp/seed_rerun/$ID.log | sed 's/.*rule=//' | cut -c1-90)"; else echo "$ID MISSED rc=$RC"; fi
done
cd /repo && git worktree remove --force $WT; git worktree prune
