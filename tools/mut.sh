#!/bin/sh
# tools/mut.sh <file relative to repo> <python-expr old> <new> -- <check args...>
# applies one textual replacement in the scratch worktree /tmp/mwt (synced to /repo HEAD), runs ./check against it, reverts.
set -e
WT=/tmp/mwt
git -C $WT checkout -q --detach $(git -C /repo rev-parse HEAD)
git -C $WT checkout -q -- .
F="$1"; OLD="$2"; NEW="$3"; shift 3; [ "$1" = "--" ] && shift
/venv/bin/python - "$WT/$F" "$OLD" "$NEW" <<'PY'
import sys
p, old, new = sys.argv[1:4]
s = open(p).read()
n = s.count(old)
assert n >= 1, f"pattern not found in {p}"
s = s.replace(old, new, 1)
open(p, "w").write(s)
print(f"mutated {p} ({n} occurrence(s), first replaced)")
PY
cd /verif
VERIF_REPO=$WT ./check "$@" > /tmp/mut.out 2>&1 || true
grep -E "^VIOLATION|^KNOWN|MACHINERY|^C[0-9][0-9] tier|violation cfg" /tmp/mut.out | sed 's/replay=.*//' | sort | uniq -c | sort -rn | head -${MUT_LINES:-6}
git -C $WT checkout -q -- .
