#!/venv/bin/python
"""tools/mk_verified.py <id> [missed-at-first note]: write seeded/<id>/verified.json from the logs tools/verify_seed.sh left there."""
import sys, json, re, os
sid = sys.argv[1]
note = sys.argv[2] if len(sys.argv) > 2 else None
d = f"/verif/seeded/{sid}"
vlog = open(f"/tmp/seed/verify_{sid}.log").read()
m = re.search(r"stable tests passing with the change: (\d+) / (\d+)", vlog)
dm = re.search(r"demo exit: original=(\d+) changed=(\d+)", vlog)
ck = open(f"{d}/check_quick.log").read()
rules = sorted({f"{a.strip()}: {b}" for a, b in re.findall(r"violation cfg=(.*?) rule=([\w.]+)", ck)})
nviol = len(re.findall(r"^VIOLATION", ck, re.M))
out = {"property": sid[:3],
       "confirmed_by_me": {"stable_tests_pass_with_change": f"{m.group(1)}/{m.group(2)}", "demo_exit_original": int(dm.group(1)), "demo_exit_changed": int(dm.group(2)),
                           "commands": [f"tools/verify_seed.sh {sid}", f"VERIF_REPO=/tmp/seed/{sid} ./check {sid[:3]} --tier quick"]},
       "detected": nviol > 0, "detected_as": rules[:8]}
if note:
    out["missed_at_first"] = note
json.dump(out, open(f"{d}/verified.json", "w"), indent=1)
print(sid, "detected" if nviol else "MISSED", rules[:3])
