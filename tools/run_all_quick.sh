#!/bin/sh
# clean quick run of every registered check against /repo (regenerates evidence/*.json); VERIF_SEED passes through
cd /verif
for p in $(/venv/bin/python -c "import json;print(' '.join(c['property_id'] for c in json.load(open('MANIFEST.json'))['checks']))"); do
  ./check $p --tier quick > /tmp/quick_$p.log 2>&1; echo "$p exit=$? $(tail -1 /tmp/quick_$p.log | cut -c1-200)"
done
