#!/bin/sh
# tools/rerun_seeds_par.sh <jobs> [ids...]: like rerun_seeds.sh, <jobs> seeds at a time, one scratch worktree per job under /tmp/seedwt<k>.
# Prints one line per seed ("caught"/"MISSED"); logs in /tmp/seed_rerun/<id>.log.  All worktrees are removed at the end.
J=${1:-3}; shift
IDS="$@"; [ -z "$IDS" ] && IDS=$(ls /verif/seeded)
mkdir -p /tmp/seed_rerun
git -C /repo worktree prune
k=0
for ID in $IDS; do echo $ID; done | awk -v J=$J '{print (NR-1)%J, $1}' > /tmp/seed_rerun/plan.txt
for k in $(seq 0 $((J-1))); do
  (
    WT=/tmp/seedwt$k
    git -C /repo worktree remove --force $WT 2>/dev/null
    git -C /repo worktree add -q --detach $WT HEAD || exit 3
    for ID in $(awk -v k=$k '$1==k{print $2}' /tmp/seed_rerun/plan.txt); do
      PROP=$(echo $ID | cut -c1-3)
      cd $WT && git checkout -q -- . && git apply /verif/seeded/$ID/patch.diff 2>/dev/null || { echo "$ID patch does not apply to HEAD"; continue; }
      cd /verif && VERIF_REPO=$WT ./check $PROP > /tmp/seed_rerun/$ID.log 2>&1; RC=$?
      N=$(grep -c "^VIOLATION" /tmp/seed_rerun/$ID.log)
      if [ $RC -eq 1 ] && [ $N -gt 0 ]; then echo "$ID caught ($N): $(grep -m1 'violation cfg' /tmp/seed_rerun/$ID.log | sed 's/.*rule=//' | cut -c1-90)"; else echo "$ID MISSED rc=$RC"; fi
    done
    git -C /repo worktree remove --force $WT
  ) &
done
wait
git -C /repo worktree prune
