#!/venv/bin/python
"""Regenerates /verif/MANIFEST.json from the table below (kept valid at all times; run after adding a check)."""
import json, os, sys
HERE = os.path.dirname(os.path.dirname(os.path.abspath(__file__)))
TB = ("Trusted: LiteX's own simulator semantics (the fast stepper is conformance-checked against litex.gen.sim's Evaluator on sampled "
      "transitions; every violation is replayed from reset on the stock simulator before it is reported), the reference models / "
      "environments in checks/, the parameter menus listed in the evidence, the tracer shim (names only).")
MC = "explicit-state BFS to closure over the real FHDL transition function (LiteX simulator semantics) with reference-model oracle"
CLAIMED = {
 "C03": ("model_checking", "Every reachable state of (real FHDL of the stream element x legal producer x scoreboard) under every valid/ready choice per cycle, to closure, for the listed parameter menu; scoreboard reference models per element.", TB, MC, "fsmc"),
 "C04": ("model_checking", "Same closed state graphs as C03/C16 with the valid/payload stability monitor on every transition and Tarjan-SCC search for cooperative cycles without (output) progress (deadlock/livelock/starvation).", TB + " Liveness is judged under cooperation.", MC + " + fair-cycle (SCC) detection on the explored graph", "fsmc"),
 "C16": ("model_checking", "Closure of (real Packetizer/Depacketizer/loop/PacketFIFO/Arbiter/Dispatcher x producers x byte-layout scoreboard written from the Header definition) under every valid/ready/sel schedule for a menu of header layouts, data widths and packet lengths.", TB, MC, "fsmc"),
 "C06": ("model_checking", "Closure of (real Wishbone InterconnectShared/Crossbar/Arbiter/Decoder/PointToPoint with real SoCRegion decoders x 1..3 Moore masters x 1..3 reactive slaves) under every request pattern (any slave or an unmapped window, read/write, back-to-back) and every slave latency/ack/err choice; per-cycle mutex/routing/ownership/response monitors, bounded-waiting counter, starvation/deadlock lassos on the graph.", TB, MC + " + fair-cycle detection", "fsmc"),
 "C07": ("model_checking", "Closure (write-back cache: bounded operation depth 3-5, reported) of (real Wishbone Down/Up/Converter, Cache (+real SRAM or environment memory), SRAM x one master x memory slave with free latency x flat byte-memory reference) under every master operation over colliding addresses, sel patterns incl. 0, read/write, gaps and back-to-back cycles; slave-side protocol stability and no-collateral-write checks.", TB, MC, "fsmc"),
 "C08": ("model_checking", "Closure of (real AXI-Lite and AXI InterconnectShared/Crossbar/Arbiter/Decoder/PointToPoint with real SoCRegion decoders x 1..3 masters x 1..3 slaves) under every five-channel schedule (AW/W together or W late, free bready/rready, reactive slave readies, free B/R delay, write-only/read-only/mixed): AW/AR routing, W-to-AW pairing, B/R delivery to the issuing master, stability of every DUT-driven valid, starvation/deadlock lassos; capability runs for W-before-AW and greedy masters tied to known findings.", TB, MC + " + fair-cycle detection", "fsmc"),
 "C09": ("model_checking", "Closure of (real AXILiteSRAM, AXILiteDown/Up/Converter, AXILite2Wishbone, Wishbone2AXILite, AXILite2CSR, Wishbone2CSR x AXI-Lite or Wishbone master driver x environment memory slave of the other protocol) with a flat byte-memory oracle (allowed sets for overlapping reads/writes), slave-side protocol stability, address-window and no-collateral-write checks, deadlock lassos; capability runs for partial strobes on CSR bridges and err responses.", TB, MC + " + fair-cycle detection", "fsmc"),
 "C11": ("model_checking", "Closure of (real InterconnectShared/Timeout/Crossbar with a time-out x masters x reactive slaves with fail-stop fault switches flipped at any cycle) for T in 1..6 with all latencies 0..T+1 (answers in the very expiry cycle included) and unmapped windows: deadline, all-ones data, error pulse = timed-out requests, undisturbed in-time answers, and graph liveness after a time-out; WaitTimer vs counter model. (AXI-Lite/AXI time-outs: added when checks/c11_axi.py is present.)", TB, MC + " with exhaustive fault-point enumeration", "fsmc"),
 "C12": ("model_checking", "Closure of (real CSRBank FHDL x register-file reference derived from the description) under every bus operation (all words, first word past the bank, same offset in another page; 3 data values; reads) x device-side inputs per cycle, for register menus covering sizes around the bus word, atomic writes, device-writable storages, read/write statuses, raw CSRs, fields with pulse/reset/offset, fixed locations, bus 8/32, big/little ordering, paging.", TB, MC, "fsmc"),
 "C15": ("model_checking", "Closure of (real EventManager + real CSRBank [+ SharedIRQ] x reference model of pending/status/enable/irq) under every trigger vector x every CSR bus operation per cycle, so trigger and clear coincide in every alignment; all 1..2-source mixes (quick) and 3-source mixes (thorough), bus 8/32.", TB, MC, "fsmc"),
 "C17": ("model_checking", "Closure of the real Encoder(1) over all 268 symbols x ce from every reachable projected state (537 states); code table measured from that run; all 143 648 ordered symbol pairs x both disparities for run length / comma; Decoder on all 1024 words from three pre-states (history independence, invalid flag, round trip, ce freeze); multi-word lanes vs the serial encoding; StreamEncoder/StreamDecoder under all valid/ready schedules.", TB + " The projection of feed-forward output registers is checked by a cone-of-influence walk.", MC + " (projected state) + exhaustive symbol-pair enumeration on the measured code table", "fsmc"),
 "C18": ("exploration", "Real ECCEncoder/ECCDecoder FHDL evaluated on all data words x all single and double flips for k<=8 (quick) / k<=11 (thorough), structured word sets x all flips for larger k up to 128, enable=0 pass-through, geometry helpers vs an independent Hamming construction for k=1..256.", "Trusted: fast stepper (sampled conformance vs the real Evaluator, violations replayed on run_simulation), the independent Hamming reference; for large k the claim is 'all flips x this word set', not all words.", "exhaustive enumeration of inputs x fault patterns over the real combinational FHDL against a reference code", "seqx"),
}
REASONS = {}
def main():
    extra = os.path.join(HERE, "tools", "manifest_extra.json")
    if os.path.exists(extra):
        ex = json.load(open(extra))
        for k, v in ex.get("claimed", {}).items():
            CLAIMED[k] = tuple(v)
        REASONS.update(ex.get("reasons", {}))
    checks = []
    for pid in sorted(CLAIMED):
        cat, text, note, tech, eng = CLAIMED[pid]
        checks.append(dict(property_id=pid, quick_cmd=f"./check {pid} --tier quick", thorough_cmd=f"./check {pid} --tier thorough",
                           evidence_file=f"/verif/evidence/{pid}.json", replay_cmd_template=f"./check {pid} --replay {{path}}", engine=eng,
                           level_claimed=dict(category=cat, text=text, design_ref=f"DESIGN.md §4 {pid}"), level_note=note, technique=tech))
    na = [dict(property_id=f"C{n:02d}", reason=REASONS.get(f"C{n:02d}", "check not built yet (work in progress; designed in DESIGN.md §4)"))
          for n in range(1, 21) if f"C{n:02d}" not in CLAIMED]
    m = dict(version=1, setup_cmd="true",
             hooks=dict(guard="LITEX_VERIF", enable="no hooks in /repo: checks import /repo's working tree directly and install the Migen tracer shim in their own process",
                        baseline_off_cmd="cd /repo && /venv/bin/python -m pytest -ra -q -p no:cacheprovider --timeout=900 --continue-on-collection-errors",
                        source_commits=[], add_only=True),
             engines=[dict(name="fsmc", path="/verif/fsmc", serves_properties=sorted(k for k, v in CLAIMED.items() if v[4] == "fsmc"),
                           kind_free_text="explicit-state model checker over the FHDL fragments LiteX's own Simulator builds (BFS to closure, conformance against litex.gen.sim Evaluator, SCC liveness, stock-simulator replay)"),
                      dict(name="seqx", path="/verif/checks", serves_properties=sorted(k for k, v in CLAIMED.items() if v[4] == "seqx"),
                           kind_free_text="bounded exhaustive enumeration of call histories / input spaces of Python-level APIs against reference models"),
                      dict(name="vlog", path="/verif/vlog", serves_properties=sorted(k for k, v in CLAIMED.items() if v[4] == "vlog"),
                           kind_free_text="executable IEEE-1364 semantics for the Verilog subset LiteX emits, explored in product with the FHDL semantics")],
             checks=checks, notes="See DESIGN.md. known_findings.json lists open/fixed genuine defects.", not_applicable=na)
    json.dump(m, open(os.path.join(HERE, "MANIFEST.json"), "w"), indent=1)
    print("claimed:", sorted(CLAIMED))
main()
