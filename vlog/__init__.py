"""vlog (engine E2): executable IEEE 1364-2005 semantics for the Verilog subset emitted by
litex.gen.fhdl.verilog.convert — parser (parser.py), static sizing/typing (sizing.py), compiler to Python and
scheduler (sim.py), hand-computed unit-test table (selftest.py).  See DESIGN.md §1-E2 and Appendix B."""
from .parser import parse, VlogSyntaxError, VlogUnsupported
from .sim import Sim
from .selftest import run_selftest
