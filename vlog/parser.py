"""Recursive-descent parser for exactly the Verilog subset litex.gen.fhdl.verilog.convert emits (DESIGN.md §1-E2).

AST (plain tuples):
  expressions  ("num", width, signed, value) | ("id", name) | ("idx", base, index_expr) | ("part", base, msb, lsb)
               ("concat", [e..]) | ("repl", n, [e..]) | ("signed", e) | ("un", op, e) | ("bin", op, a, b)
               ("tern", c, a, b)
  statements   ("block", [s..]) | ("if", c, t, f|None) | ("case", e, [([keys], s)..], default|None)
               ("nba", lhs, rhs) | ("ba", lhs, rhs) | ("nop",)
Anything outside the subset raises VlogUnsupported (known construct without 2-state semantics here: instances,
inout, negedge ...) or VlogSyntaxError (text that is not legal Verilog-2005 as far as this parser knows).
"""
import re


class VlogSyntaxError(Exception):
    pass


class VlogUnsupported(Exception):
    pass


_TOK = re.compile(r"""
    (?P<ws>\s+|//[^\n]*|/\*.*?\*/|`timescale[^\n]*)
  | (?P<attr>\(\*\s[^)]*?\*\))
  | (?P<str>"[^"\n]*")
  | (?P<sized>\d+\s*'[sS]?[dDhHbBoO]\s*[0-9a-fA-F_xXzZ]+)
  | (?P<dec>\d+)
  | (?P<id>[$A-Za-z_][A-Za-z0-9_$]*)
  | (?P<op><<<|>>>|<<|>>|<=|>=|===|!==|==|!=|&&|\|\||[-+*/%&|^~!?:<>=(){}\[\],;@\#.])
""", re.X | re.S)

KEYWORDS = {"module", "endmodule", "input", "output", "inout", "wire", "reg", "signed", "assign", "always", "posedge",
            "negedge", "begin", "end", "if", "else", "case", "endcase", "default", "initial", "integer", "parameter",
            "localparam", "function", "generate", "for", "casez", "casex", "or"}


def tokenize(text):
    out = []
    pos = 0
    n = len(text)
    line = 1
    while pos < n:
        m = _TOK.match(text, pos)
        if not m:
            raise VlogSyntaxError(f"line {line}: cannot tokenise {text[pos:pos+40]!r}")
        k = m.lastgroup
        s = m.group(k)
        if k == "str":
            out.append(("str", s[1:-1], line))
        elif k == "sized":
            mm = re.match(r"(\d+)\s*'([sS]?)([dDhHbBoO])\s*([0-9a-fA-F_xXzZ]+)", s)
            w = int(mm.group(1))
            base = {"d": 10, "h": 16, "b": 2, "o": 8}[mm.group(3).lower()]
            digits = mm.group(4).replace("_", "")
            if re.search(r"[xXzZ]", digits):
                raise VlogUnsupported(f"line {line}: x/z literal {s}")
            if w == 0:
                raise VlogSyntaxError(f"line {line}: zero-width literal {s}")
            val = int(digits, base)
            out.append(("num", (w, bool(mm.group(2)), val & ((1 << w) - 1)), line))
        elif k == "dec":
            out.append(("num", (32, True, int(s) & 0xFFFFFFFF), line))   # unsized decimal: signed, >= 32 bits
        elif k == "id":
            out.append(("id", s, line))
        elif k == "op":
            out.append(("op", s, line))
        line += s.count("\n")
        pos = m.end()
    out.append(("eof", None, line))
    return out


_LEVELS = [["||"], ["&&"], ["|"], ["^"], ["&"], ["==", "!="], ["<", "<=", ">", ">="], ["<<", ">>", "<<<", ">>>"],
           ["+", "-"], ["*"]]


class Module:
    """Parsed module: declarations + processes."""
    def __init__(self):
        self.name = None
        self.sig = {}        # name -> (width, signed, kind)  kind in input/output/wire/reg ; 'port' flag in self.ports
        self.ports = {}      # name -> direction
        self.init = {}       # name -> expr (declaration initialiser)
        self.mem = {}        # name -> (width, depth)
        self.assigns = []    # (lhs, rhs, line)
        self.combs = []      # (stmt, line)
        self.syncs = []      # (clkname, stmt, line)
        self.readmem = {}    # memory name -> file name
        self.initials = []   # (stmt, line): initial blocks with assignments, executed once at time 0
        self.scalars = set() # names declared without a range (bit/part-select on them is illegal)
        self.order = []      # textual order of processes: ("assign", i) / ("comb", i) / ("sync", i)


class Parser:
    def __init__(self, text):
        self.t = tokenize(text)
        self.i = 0

    # -- token helpers ---------------------------------------------------------------------------
    def peek(self):
        return self.t[self.i]

    def nxt(self):
        x = self.t[self.i]
        self.i += 1
        return x

    def at(self, s):
        k, v, _ = self.t[self.i]
        return (k == "op" or k == "id") and v == s

    def eat(self, s):
        k, v, ln = self.nxt()
        if not ((k == "op" or k == "id") and v == s):
            raise VlogSyntaxError(f"line {ln}: expected {s!r}, found {v!r}")
        return ln

    def ident(self):
        k, v, ln = self.nxt()
        if k != "id" or v in KEYWORDS or v.startswith("$"):
            raise VlogSyntaxError(f"line {ln}: identifier expected, found {v!r}")
        return v

    def const_int(self):
        k, v, ln = self.nxt()
        if k != "num":
            raise VlogSyntaxError(f"line {ln}: constant expected, found {v!r}")
        return v[2]

    # -- expressions -----------------------------------------------------------------------------
    def expr(self):
        c = self.binl(0)
        if self.at("?"):
            self.nxt()
            a = self.expr()
            self.eat(":")
            b = self.expr()
            return ("tern", c, a, b)
        return c

    def binl(self, lv):
        if lv == len(_LEVELS):
            return self.unary()
        a = self.binl(lv + 1)
        while self.peek()[0] == "op" and self.peek()[1] in _LEVELS[lv]:
            op = self.nxt()[1]
            b = self.binl(lv + 1)
            a = ("bin", op, a, b)
        return a

    def unary(self):
        k, v, ln = self.peek()
        if k == "op" and v in ("-", "~", "!", "+"):
            self.nxt()
            return ("un", v, self.unary())
        if k == "op" and v in ("&", "|", "^"):
            raise VlogUnsupported(f"line {ln}: reduction operator {v}")
        return self.primary()

    def primary(self):
        k, v, ln = self.nxt()
        if k == "num":
            return ("num",) + v
        if k == "op" and v == "(":
            e = self.expr()
            self.eat(")")
            return e
        if k == "op" and v == "{":
            e = self.expr()
            if self.at("{"):
                self.nxt()
                inner = [self.expr()]
                while self.at(","):
                    self.nxt()
                    inner.append(self.expr())
                self.eat("}")
                self.eat("}")
                if e[0] != "num":
                    raise VlogSyntaxError(f"line {ln}: replication count must be a constant")
                if e[3] == 0:
                    raise VlogSyntaxError(f"line {ln}: zero replication")
                return ("repl", e[3], inner)
            items = [e]
            while self.at(","):
                self.nxt()
                items.append(self.expr())
            self.eat("}")
            return ("concat", items)
        if k == "id":
            if v == "$signed":
                self.eat("(")
                e = self.expr()
                self.eat(")")
                return ("signed", e)
            if v == "$unsigned":
                self.eat("(")
                e = self.expr()
                self.eat(")")
                return ("concat", [e])
            if v in KEYWORDS or v.startswith("$"):
                raise VlogSyntaxError(f"line {ln}: unexpected {v!r} in expression")
            e = ("id", v)
            while self.at("["):
                self.nxt()
                a = self.expr()
                if self.at(":"):
                    self.nxt()
                    b = self.expr()
                    self.eat("]")
                    if a[0] != "num" or b[0] != "num":
                        raise VlogSyntaxError(f"line {ln}: part-select bounds must be constants")
                    if a[3] < b[3]:
                        raise VlogSyntaxError(f"line {ln}: reversed part-select [{a[3]}:{b[3]}] on a [n:0] vector")
                    e = ("part", e, a[3], b[3])
                else:
                    self.eat("]")
                    e = ("idx", e, a)
            return e
        raise VlogSyntaxError(f"line {ln}: unexpected {v!r} in expression")

    # -- statements ------------------------------------------------------------------------------
    def stmt(self):
        k, v, ln = self.peek()
        if self.at("begin"):
            self.nxt()
            l = []
            while not self.at("end"):
                if self.peek()[0] == "eof":
                    raise VlogSyntaxError("unterminated begin")
                l.append(self.stmt())
            self.nxt()
            return ("block", l)
        if self.at("if"):
            self.nxt()
            self.eat("(")
            c = self.expr()
            self.eat(")")
            t = self.stmt()
            f = None
            if self.at("else"):
                self.nxt()
                f = self.stmt()
            return ("if", c, t, f)
        if self.at("case"):
            self.nxt()
            self.eat("(")
            e = self.expr()
            self.eat(")")
            items = []
            dflt = None
            while not self.at("endcase"):
                if self.peek()[0] == "eof":
                    raise VlogSyntaxError("unterminated case")
                if self.at("default"):
                    self.nxt()
                    if self.at(":"):
                        self.nxt()
                    if dflt is not None:
                        raise VlogSyntaxError(f"line {ln}: two default items")
                    dflt = self.stmt()
                else:
                    keys = [self.expr()]
                    while self.at(","):
                        self.nxt()
                        keys.append(self.expr())
                    self.eat(":")
                    items.append((keys, self.stmt()))
            self.nxt()
            return ("case", e, items, dflt)
        if self.at(";"):
            self.nxt()
            return ("nop",)
        if k == "id" and v in ("$display", "$finish", "$write", "$stop"):
            self.nxt()
            if self.at("("):
                depth = 0
                while True:
                    kk, vv, _ = self.nxt()
                    if kk == "eof":
                        raise VlogSyntaxError("unterminated system task")
                    if kk == "op" and vv == "(":
                        depth += 1
                    if kk == "op" and vv == ")":
                        depth -= 1
                        if depth == 0:
                            break
            self.eat(";")
            return ("nop",)
        if k == "id" and v in ("casez", "casex", "for", "while", "repeat", "forever", "wait", "fork", "disable"):
            raise VlogUnsupported(f"line {ln}: statement {v}")
        l = self.lvalue()
        kk, op, ln2 = self.nxt()
        if kk != "op" or op not in ("<=", "="):
            raise VlogSyntaxError(f"line {ln2}: assignment operator expected, found {op!r}")
        if self.at("#") or self.at("@"):
            raise VlogUnsupported(f"line {ln2}: intra-assignment timing control")
        r = self.expr()
        self.eat(";")
        return ("nba" if op == "<=" else "ba", l, r)

    def lvalue(self):
        k, v, ln = self.peek()
        e = self.primary()
        self.check_lvalue(e, ln)
        return e

    def check_lvalue(self, e, ln):
        if e[0] == "id":
            return
        if e[0] in ("part", "idx"):
            b = e[1]
            while b[0] in ("idx",):
                b = b[1]
            if b[0] != "id":
                raise VlogSyntaxError(f"line {ln}: illegal assignment target")
            return
        if e[0] == "concat":
            for x in e[1]:
                self.check_lvalue(x, ln)
            return
        raise VlogSyntaxError(f"line {ln}: illegal assignment target ({e[0]})")

    # -- declarations ----------------------------------------------------------------------------
    def decl_tail(self, M, kind, port_dir=None):
        """after the net/reg keyword: [signed] [msb:lsb] name [ [0:d] ] [= init]"""
        signed = False
        w = 1
        has_range = False
        if self.at("signed"):
            self.nxt()
            signed = True
        if self.at("["):
            has_range = True
            self.nxt()
            msb = self.const_int()
            self.eat(":")
            lsb = self.const_int()
            self.eat("]")
            if lsb != 0:
                raise VlogUnsupported("vector range not [n:0]")
            w = msb + 1
        name = self.ident()
        if name in M.sig or name in M.mem:
            raise VlogSyntaxError(f"identifier {name} declared twice")
        if self.at("["):
            self.nxt()
            lo = self.const_int()
            self.eat(":")
            hi = self.const_int()
            self.eat("]")
            if lo != 0 or kind != "reg" or signed:
                raise VlogUnsupported("memory declaration form")
            M.mem[name] = (w, hi + 1)
            return name
        M.sig[name] = (w, signed, kind)
        if not has_range:
            M.scalars.add(name)
        if port_dir:
            M.ports[name] = port_dir
        if self.at("="):
            self.nxt()
            if kind != "reg":
                raise VlogUnsupported("net declaration assignment")
            M.init[name] = self.expr()
        return name

    def parse(self):
        M = Module()
        self.eat("module")
        M.name = self.ident()
        self.eat("(")
        while not self.at(")"):
            k, d, ln = self.nxt()
            if d == "inout":
                raise VlogUnsupported("inout port")
            if d not in ("input", "output"):
                raise VlogSyntaxError(f"line {ln}: port direction expected, found {d!r}")
            k, kind, ln = self.nxt()
            if kind not in ("wire", "reg"):
                raise VlogSyntaxError(f"line {ln}: wire/reg expected, found {kind!r}")
            if d == "input" and kind == "reg":
                raise VlogSyntaxError(f"line {ln}: input reg")
            self.decl_tail(M, kind, d)
            if self.at(","):
                self.nxt()
                if self.at(")"):
                    raise VlogSyntaxError("trailing comma in port list")
        self.eat(")")
        self.eat(";")
        while not self.at("endmodule"):
            k, v, ln = self.peek()
            if k == "eof":
                raise VlogSyntaxError("endmodule missing")
            if v in ("wire", "reg") and k == "id":
                self.nxt()
                self.decl_tail(M, v)
                self.eat(";")
            elif v == "assign":
                self.nxt()
                l = self.lvalue()
                self.eat("=")
                r = self.expr()
                self.eat(";")
                M.order.append(("assign", len(M.assigns)))
                M.assigns.append((l, r, ln))
            elif v == "always":
                self.nxt()
                self.eat("@")
                self.eat("(")
                if self.at("*"):
                    self.nxt()
                    self.eat(")")
                    M.order.append(("comb", len(M.combs)))
                    M.combs.append((self.stmt(), ln))
                elif self.at("posedge"):
                    self.nxt()
                    clk = self.ident()
                    if not self.at(")"):
                        raise VlogUnsupported(f"line {ln}: sensitivity list with several events")
                    self.eat(")")
                    M.order.append(("sync", len(M.syncs)))
                    M.syncs.append((clk, self.stmt(), ln))
                else:
                    raise VlogUnsupported(f"line {ln}: sensitivity list")
            elif v == "initial":
                self.nxt()
                # `initial begin $readmemh("file", mem); end` (memory template) or constant assignments executed once at
                # time 0 (`initial dummy_s <= 1'd0;`)
                items = []
                block = self.at("begin")
                if block:
                    self.nxt()
                while True:
                    if block and self.at("end"):
                        self.nxt()
                        break
                    if self.at("$readmemh"):
                        self.nxt()
                        self.eat("(")
                        k2, fn, _ = self.nxt()
                        if k2 != "str":
                            raise VlogSyntaxError("file name expected")
                        self.eat(",")
                        mn = self.ident()
                        self.eat(")")
                        self.eat(";")
                        M.readmem[mn] = fn
                    else:
                        items.append(self.stmt())
                    if not block:
                        break
                if items:
                    M.initials.append((("block", items), ln))
            elif k == "id" and v in ("integer", "parameter", "localparam", "function", "generate", "genvar", "task",
                                     "defparam", "specify", "tri", "wand", "wor", "supply0", "supply1"):
                raise VlogUnsupported(f"line {ln}: module item {v}")
            elif k == "id" and v not in KEYWORDS and not v.startswith("$"):
                raise VlogUnsupported(f"line {ln}: module instance {v}")
            else:
                raise VlogSyntaxError(f"line {ln}: unexpected {v!r} at module level")
        self.eat("endmodule")
        if self.peek()[0] != "eof":
            raise VlogUnsupported("more than one module")
        return M


def parse(text):
    return Parser(text).parse()
