"""Static sizing and typing of expressions, IEEE 1364-2005 §5.4 (Table 5-22) and §5.5 (DESIGN.md Appendix B).

Written from the standard, not from LiteX's printer:
  * L(e): self-determined bit length
  * S(e): True iff the expression type is signed (5.5.1: decided from the operands only, never from the left-hand
    side; part/bit selects, concatenations, replications, comparison results are unsigned; a sized literal is signed
    only with the `s` flag; $signed(...) is signed)
"""
from .parser import VlogSyntaxError

CMP = ("==", "!=", "<", "<=", ">", ">=")
LOGIC = ("&&", "||")
SHIFT = ("<<", ">>", "<<<", ">>>")
ARITH = ("+", "-", "*", "&", "|", "^")


class Scope:
    def __init__(self, sig, mem):
        self.sig = sig      # name -> (width, signed, kind)
        self.mem = mem      # name -> (width, depth)

    def is_memword(self, e):
        return e[0] == "idx" and e[1][0] == "id" and e[1][1] in self.mem

    def L(self, e):
        k = e[0]
        if k == "num":
            return e[1]
        if k == "id":
            if e[1] in self.mem:
                raise VlogSyntaxError(f"memory {e[1]} used without an index")
            try:
                return self.sig[e[1]][0]
            except KeyError:
                raise VlogSyntaxError(f"undeclared identifier {e[1]}")
        if k == "part":
            return e[2] - e[3] + 1
        if k == "idx":
            if self.is_memword(e):
                return self.mem[e[1][1]][0]
            return 1
        if k == "concat":
            return sum(self.L(x) for x in e[1])
        if k == "repl":
            return e[1] * sum(self.L(x) for x in e[2])
        if k == "signed":
            return self.L(e[1])
        if k == "un":
            return 1 if e[1] == "!" else self.L(e[2])
        if k == "bin":
            op = e[1]
            if op in CMP or op in LOGIC:
                return 1
            if op in SHIFT:
                return self.L(e[2])
            if op in ARITH:
                return max(self.L(e[2]), self.L(e[3]))
            raise VlogSyntaxError(f"operator {op}")
        if k == "tern":
            return max(self.L(e[2]), self.L(e[3]))
        raise VlogSyntaxError(f"node {k}")

    def S(self, e):
        k = e[0]
        if k == "num":
            return e[2]
        if k == "id":
            return self.sig[e[1]][1]
        if k in ("part", "idx", "concat", "repl"):
            return False
        if k == "signed":
            return True
        if k == "un":
            return False if e[1] == "!" else self.S(e[2])
        if k == "bin":
            op = e[1]
            if op in CMP or op in LOGIC:
                return False
            if op in SHIFT:
                return self.S(e[2])
            return self.S(e[2]) and self.S(e[3])
        if k == "tern":
            return self.S(e[2]) and self.S(e[3])
        raise VlogSyntaxError(f"node {k}")

    def lwidth(self, l):
        if l[0] == "concat":
            return sum(self.lwidth(x) for x in l[1])
        return self.L(l)

    def check_select(self, e):
        """part/bit selects must stay inside the declared vector (anything else reads x in Verilog)."""
        k = e[0]
        if k == "part":
            b = e[1]
            if b[0] == "id":
                w = self.L(b)
            elif self.is_memword(b):
                w = self.mem[b[1][1]][0]
            else:
                raise VlogSyntaxError("part-select of an expression")
            if e[2] >= w:
                raise VlogSyntaxError(f"part-select [{e[2]}:{e[3]}] outside {b[1] if b[0]=='id' else b[1][1]}[{w-1}:0]")
