"""Hand-computed unit tests of vlog (sizing, typing, extension, scheduling).  Every expected value below was derived
by hand from IEEE 1364-2005 §5.1.5-5.1.12, §5.4 (Table 5-22), §5.5 and §9.2/§9.7 — not from running any tool and not
from LiteX's printer.  Run at the start of every C01 configuration; a failure is a machinery error."""
from .sim import Sim
from .parser import VlogSyntaxError, VlogUnsupported

_HDR = """module t(input wire [2:0] a, input wire signed [2:0] b, input wire [3:0] c, input wire signed [3:0] d,
 input wire e, input wire signed f, input wire clk, input wire clk2,
 output wire [7:0] y, output wire signed [7:0] ys, output wire [1:0] y2, output wire y1);
"""

# (body lines inside the module, inputs {name: bit pattern}, expected {name: bit pattern}, comment)
EXPR_CASES = [
    # -- extension is decided by the type of the RHS, not of the target -------------------------------------------
    ("assign y = b;",               dict(b=0b101), dict(y=0b11111101), "signed operand sign-extends into an unsigned target"),
    ("assign ys = a;",              dict(a=0b101), dict(ys=0b00000101), "unsigned operand zero-extends into a signed target"),
    ("assign y = a + b;",           dict(a=1, b=0b111), dict(y=8), "mixed -> unsigned context: b zero-extended 7, 1+7=8"),
    ("assign y = $signed({1'd0, a}) + b;", dict(a=1, b=0b111), dict(y=0), "both signed: 1 + (-1) = 0"),
    ("assign y = $signed({1'd0, a}) + b;", dict(a=0, b=0b100), dict(y=0b11111100), "0 + (-4) = -4 -> 0xFC"),
    # -- sized literal without s is unsigned, unary minus does not change the type ---------------------------------
    ("assign ys = b + -2'd3;",      dict(b=0b111), dict(ys=4), "-2'd3 unsigned: ctx unsigned 8 bits: 7 + (256-3) = 260 -> 4"),
    ("assign ys = b + -2'sd3;",     dict(b=0b111), dict(ys=0), "2'sd3 = 11b = -1, negated +1; b=-1: 0"),
    ("assign ys = b + 3'sd5;",      dict(b=0b111), dict(ys=0b11111100), "3'sd5 = 101b = -3 ; -1 + -3 = -4"),
    ("assign y1 = b < -2'd3;",      dict(b=0b111), dict(y1=0), "unsigned 3-bit compare: 2'd3 -> 011, negated 101 = 5; 7 < 5 false"),
    ("assign y1 = b < -2'd3;",      dict(b=0b100), dict(y1=1), "unsigned: 4 < 5 true"),
    ("assign y1 = b > -2'd3;",      dict(b=0b001), dict(y1=0), "unsigned: 1 > 5 false (a signed reading 1 > -3 would be TRUE)"),
    ("assign y1 = b < 3'sd5;",      dict(b=0b100), dict(y1=1), "signed compare: -4 < -3"),
    ("assign y1 = b < 3'd5;",       dict(b=0b100), dict(y1=1), "unsigned compare: 4 < 5"),
    ("assign y1 = b < 3'd5;",       dict(b=0b111), dict(y1=0), "unsigned compare: 7 < 5 false (b would be -1 if signed)"),
    # -- part-select / concatenation / comparison results are unsigned ---------------------------------------------
    ("assign ys = b[2:1] + d;",     dict(b=0b110, d=0b1111), dict(ys=18), "part-select unsigned -> d zero-extended: 3 + 15"),
    ("assign ys = $signed({1'd0, b[2:1]}) + d;", dict(b=0b110, d=0b1111), dict(ys=2), "3 + (-1) = 2"),
    ("assign ys = {b} + d;",        dict(b=0b111, d=0b1111), dict(ys=22), "concat unsigned: 7 + 15"),
    ("assign ys = (b < d) + d;",    dict(b=0b100, d=0b1111), dict(ys=16), "comparison result unsigned 1: 1 + 15"),
    ("assign y1 = b[2:1] < d;",     dict(b=0b110, d=0b1111), dict(y1=1), "unsigned: 3 < 15"),
    ("assign ys = b[2] + d;",       dict(b=0b100, d=0b1000), dict(ys=9), "bit-select unsigned: 1 + 8"),
    # -- context width: max over the whole context including the target --------------------------------------------
    ("assign y = (a + c) >> 1;",    dict(a=7, c=15), dict(y=11), "8-bit context keeps the carry: 22 >> 1"),
    ("assign y2 = (a + c) >> 1;",   dict(a=7, c=15), dict(y2=3), "4-bit context: (22 mod 16 = 6) >> 1 = 3"),
    ("assign y1 = ((a + c) >> 1) == 4'd11;", dict(a=7, c=15), dict(y1=0), "comparison context is 4 bits: 3 != 11"),
    ("assign y = {a + c};",         dict(a=7, c=15), dict(y=6), "concatenation member is self-determined: 4 bits"),
    ("assign y = a * c;",           dict(a=7, c=15), dict(y=105), "8-bit context"),
    ("assign y2 = (a * c) >> 2;",   dict(a=7, c=15), dict(y2=2), "4-bit: 105 mod 16 = 9 >> 2 = 2"),
    ("assign y = ~a;",              dict(a=0b101), dict(y=0b11111010), "a zero-extended to 8 bits, then inverted"),
    ("assign y = {~a};",            dict(a=0b101), dict(y=0b010), "self-determined: 3 bits"),
    ("assign y = -a;",              dict(a=1), dict(y=255), "8-bit negate"),
    ("assign y1 = a == c - 4'd1;",  dict(a=7, c=0), dict(y1=0), "4 bits: 0-1 = 15 != 7"),
    ("assign y1 = c == a - 3'd1;",  dict(a=0, c=15), dict(y1=1), "context 4 bits (c): 0-1 = 15 == 15"),
    # -- shifts: amount self-determined and unsigned; >>> arithmetic only in a signed type -------------------------
    ("assign y = b >>> 1;",         dict(b=0b100), dict(y=0b11111110), "signed: -4 >>> 1 = -2 (8-bit context)"),
    ("assign y = b >> 1;",          dict(b=0b100), dict(y=0b01111110), "logical in 8 bits of sign-extended 0xFC"),
    ("assign y = a >>> 1;",         dict(a=0b100), dict(y=2), "unsigned type: logical"),
    ("assign y = (b + a) >>> 1;",   dict(b=0b100, a=0), dict(y=2), "mixed -> unsigned: b zero-extended 4, logical"),
    ("assign y = {b >>> 1};",       dict(b=0b100), dict(y=0b110), "self-determined 3 bits signed: 100 >>> 1 = 110"),
    ("assign y = a << b;",          dict(a=1, b=0b111), dict(y=128), "shift amount unsigned 7"),
    ("assign y2 = a <<< 2'd1;",     dict(a=0b101), dict(y2=0b10), "3-bit ctx (a) wins over y2: 1010b -> low 2 bits 10"),
    ("assign y = d <<< 2'd1;",      dict(d=0b1001), dict(y=0b11110010), "sign-extended then shifted"),
    # -- conditional operator -----------------------------------------------------------------------------------
    ("assign y = e ? b : d;",       dict(e=1, b=0b111, d=0), dict(y=255), "both signed: sign-extend"),
    ("assign y = e ? b : c;",       dict(e=1, b=0b111, c=0), dict(y=7), "mixed: unsigned, zero-extend"),
    ("assign y = e ? b : $signed({1'd0, c});", dict(e=1, b=0b111, c=0), dict(y=255), "both signed"),
    ("assign y = (e ? a : c) + 8'd0;", dict(e=0, a=0, c=9), dict(y=9), "else branch"),
    # -- $signed / replication / 1-bit signed ---------------------------------------------------------------------
    ("assign ys = $signed(a);",     dict(a=0b101), dict(ys=0b11111101), "$signed reinterprets: 101b = -3"),
    ("assign ys = $signed(a) + c;", dict(a=0b101, c=1), dict(ys=6), "mixed -> unsigned: 5 + 1"),
    ("assign y = {2{a}};",          dict(a=0b101), dict(y=0b101101), "replication"),
    ("assign y = {a, b[0], 1'd1};", dict(a=0b101, b=1), dict(y=0b10111), "concat msb first"),
    ("assign ys = f;",              dict(f=1), dict(ys=255), "1-bit signed 1 is -1"),
    ("assign ys = f + d;",          dict(f=1, d=1), dict(ys=0), "-1 + 1"),
    ("assign y = !a;",              dict(a=0), dict(y=1), "logical not"),
    ("assign y = !a;",              dict(a=2), dict(y=0), "logical not"),
    ("assign y = 5;",               dict(), dict(y=5), "unsized decimal"),
    ("assign y = -1;",              dict(), dict(y=255), "unsized signed"),
    ("assign ys = (a - c);",        dict(a=0, c=1), dict(ys=255), "8-bit wrap"),
    ("assign y = (a - c) >> 1;",    dict(a=0, c=1), dict(y=127), "8-bit unsigned ctx: 255 >> 1"),
    ("assign y = ($signed({1'd0, a}) - $signed({1'd0, c})) >>> 1;", dict(a=0, c=1), dict(y=255), "signed: -1 >>> 1 = -1"),
    ("assign y = a & b;",           dict(a=0b111, b=0b100), dict(y=0b100), "mixed unsigned: b zero-extended"),
    ("assign y = $signed({1'd0, a}) | b;", dict(a=0b001, b=0b100), dict(y=0b11111101), "signed: b sign-extended"),
]
STMT_CASES = [
    # procedural: NBAs in a comb block are applied at the end, later wins, part-select updates only its bits
    ("reg [7:0] r; always @(*) begin r <= 8'd0; r[1:0] <= a; end assign y = r;", dict(a=0b111), dict(y=3), "slice NBA over default"),
    ("reg [7:0] r; always @(*) begin r <= 8'd0; if (e) r <= 8'd9; else r[7] <= 1'd1; end assign y = r;", dict(e=0), dict(y=128), "if/else"),
    ("reg [7:0] r; always @(*) begin r <= 8'd0; {r[3:0], r[7:4]} <= {a, 5'd1}; end assign y = r;", dict(a=0b101), dict(y=0b00011010),
     "concat target msb first: {a,5'd1} = 1010_0001 -> r[3:0]=1010, r[7:4]=0001"),
    ("reg [7:0] r; always @(*) begin r <= 8'd7; case (a) 3'd1: r <= 8'd1; 3'd5: r <= 8'd5; default: r <= 8'd9; endcase end assign y = r;",
     dict(a=5), dict(y=5), "case"),
    ("reg [7:0] r; always @(*) begin r <= 8'd7; case (a) 3'd1: r <= 8'd1; endcase end assign y = r;", dict(a=5), dict(y=7), "case no match"),
    ("reg [7:0] r; always @(*) begin r <= 8'd7; case (b) -2'd1: r <= 8'd1; default: r <= 8'd2; endcase end assign y = r;",
     dict(b=0b111), dict(y=1), "case: ctx 3 bits unsigned; 2'd1 zero-extended 001 THEN negated = 111: matches b = 111"),
    ("reg [7:0] r; always @(*) begin r <= 8'd7; case (b) 3'sd7: r <= 8'd1; default: r <= 8'd2; endcase end assign y = r;",
     dict(b=0b111), dict(y=1), "case: all signed"),
    # constant-only always block never runs (empty implicit event list): r keeps its declared initial value
    ("reg [7:0] r = 8'd4; always @(*) begin r <= 8'd0; r[1:0] <= 2'd1; end assign y = r;", dict(), dict(y=4), "const-only block never triggers"),
    ("reg [7:0] r; assign y = r; always @(*) begin r <= 8'd0; r[0] <= e; end", dict(e=1), dict(y=1), "textual order irrelevant"),
    # ... unless it reads a variable that an initial block assigns at time 0 (x -> 0 is an event): Migen's dummy event
    ("reg ds; initial ds <= 1'd0; reg dd; reg [7:0] r = 8'd4; always @(*) begin r <= 8'd0; r[1:0] <= 2'd1; dd <= ds; end assign y = r;",
     dict(), dict(y=1), "dummy event makes the const-only block run once"),
]

SEQ_TEXT = _HDR + """
reg [7:0] r0 = 8'd3; reg [7:0] r1 = 8'd0; reg [7:0] r2 = 8'd0; reg [7:0] bl = 8'd0; reg [7:0] bl2 = 8'd0;
reg [7:0] mem[0:3]; reg [1:0] adr0; reg [7:0] dat1; wire [7:0] rd_wf;
wire clk_alias; assign clk_alias = clk; reg [7:0] ra = 8'd0;
always @(posedge clk) begin r0 <= r0 + 8'd1; r1 <= r0; r2 <= r1; bl = r0; bl2 <= bl; end
always @(posedge clk_alias) begin ra <= ra + 8'd2; end
always @(posedge clk) begin if (e) mem[a[1:0]] <= {c, c}; adr0 <= a[1:0]; end
always @(posedge clk2) begin if (e) mem[a[1:0]][3:0] <= 4'd0; dat1 <= mem[a[1:0]]; end
assign rd_wf = mem[adr0];
assign y = r2; assign ys = rd_wf; assign y2 = 2'd0; assign y1 = 1'd0;
endmodule
"""


def run_selftest():
    """returns the number of hand-computed cases checked; raises AssertionError on the first failure"""
    n = 0
    for body, ins, exp, why in EXPR_CASES + STMT_CASES:
        undriven = [o for o in ("y", "ys", "y2", "y1") if ("assign " + o + " ") not in body]
        text = _HDR + body + "\n" + "".join(f"assign {o} = 1'd0;\n" for o in undriven) + "endmodule\n"
        s = Sim(text)
        for k, x in ins.items():
            s.set(k, x)
        s.settle()
        for k, x in exp.items():
            got = s.get(k)
            assert got == x, f"vlog selftest: `{body}` with {ins}: {k} = {got}, hand-computed {x} ({why})"
        n += 1
    # widened contexts (V_unb reference): types unchanged, no intermediate overflow
    s = Sim(_HDR + "assign y2 = (a + c) >> 1; assign y1 = a == c - 4'd1; assign y = 8'd0; assign ys = b + -2'd3;\nendmodule", extra=64)
    s.set("a", 7); s.set("c", 15); s.set("b", 7); s.settle()
    assert s.get("y2") == (22 >> 1) & 3 and s.get("ys") == 4, "vlog selftest: widened context"
    s.set("c", 0); s.settle()
    assert s.get("y1") == 0, "vlog selftest: widened comparison (2**68 - 1 != 7)"
    n += 2
    # sequential semantics
    s = Sim(SEQ_TEXT)
    s.settle()
    assert s.get("y") == 0 and s.get("r0") == 3
    s.set("e", 1); s.set("a", 0b110); s.set("c", 0b1010); s.settle()
    s.tick({"clk"})
    # all NBAs read pre-edge values; blocking bl visible to the later statement in the same block; alias clock ticks too
    assert (s.get("r0"), s.get("r1"), s.get("r2"), s.get("bl"), s.get("bl2"), s.get("ra")) == (4, 3, 0, 3, 3, 2), "vlog selftest: posedge/NBA/blocking"
    assert s.mems[0] == [0, 0, 0xAA, 0] and s.get("adr0") == 2 and s.get("ys") == 0xAA, "vlog selftest: memory write-first read"
    s.tick({"clk2"})
    assert s.mems[0] == [0, 0, 0xA0, 0] and s.get("dat1") == 0xAA, "vlog selftest: read-first port + part-select word write"
    assert s.get("r0") == 4 and s.get("ys") == 0xA0, "vlog selftest: other clock domain untouched, async view follows the word"
    s.tick({"clk", "clk2"})
    assert s.get("r2") == 3 and s.get("dat1") == 0xA0 and s.mems[0][2] == 0xA0, "vlog selftest: simultaneous edges"
    n += 4
    # $readmemh
    s = Sim("module t(input wire [1:0] a, output wire [7:0] y);\nreg [7:0] m[0:3];\ninitial begin\n$readmemh(\"f.init\", m);\nend\nassign y = m[a];\nendmodule",
            {"f.init": "0a\nff\n"})
    s.set("a", 1); s.settle()
    assert s.get("y") == 0xFF and s.mems[0] == [10, 255, 0, 0], "vlog selftest: readmemh"
    n += 1
    # rejected texts
    for bad, exc in [("module t(input wire a, output wire y); assign y = a[0]; endmodule", VlogSyntaxError),
                     ("module t(input wire [2:0] a, output wire y); assign y = (a + a)[1]; endmodule", VlogSyntaxError),
                     ("module t(input wire [2:0] a, output wire y); assign y = a[3]; endmodule", VlogSyntaxError),
                     ("module t(input wire [2:0] a, output wire y); assign y = a[1:2]; endmodule", VlogSyntaxError),
                     ("module t(input wire [2:0] a, output wire y); assign y = q; endmodule", VlogSyntaxError),
                     ("module t(input wire [2:0] a, output reg y); assign y = a[0]; endmodule", VlogSyntaxError),
                     ("module t(input wire [2:0] a, output wire y); FOO foo(.a(a)); endmodule", VlogUnsupported)]:
        try:
            Sim(bad)
        except exc:
            n += 1
        else:
            raise AssertionError(f"vlog selftest: accepted illegal text {bad!r}")
    return n
