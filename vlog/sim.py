"""vlog: executable IEEE 1364 semantics for the Verilog subset LiteX emits, compiled to Python (DESIGN.md §1-E2, App. B).

    s = Sim(main_source, data_files)        # parse, size/type statically, compile
    s.reset()                               # time 0: declaration initialisers, $readmemh
    s.v[s.idx[name]] = value                # drive an input (unsigned bit pattern)
    s.settle()                              # continuous assigns + always @(*) to a fix-point
    s.tick({"sys_clk"})                     # posedge of the named clock nets (and of nets assigned from them)

2-state; values are stored as unsigned bit patterns; uninitialised regs / memory words read 0.
`extra` widens every expression context by that many bits (types unchanged): with extra=64 no intermediate result of
a context-determined operator chain can overflow, which is the V_unb reference of the C01 classification.
`lenient_const_blocks=True` makes an `always @(*)` block that reads nothing run once at time 0 (what a synthesiser
effectively does); the strict default never runs it (1364-2005 §9.7.5: the implicit event list is empty).
"""
from .parser import parse, VlogSyntaxError, VlogUnsupported
from .sizing import Scope, CMP, LOGIC, SHIFT, ARITH


def _mask(n):
    return (1 << n) - 1


class _Gen:
    """expression / statement code generator for one process"""
    def __init__(self, sim):
        self.sim = sim
        self.sc = sim.scope
        self.extra = sim.extra
        self.reads = set()
        self.writes = set()
        self.uid = 0

    def tmp(self):
        self.uid += 1
        return f"_t{self.uid}"

    # ---- expressions: returns python source of a value in [0, 2**W) ---------------------------------
    def ext(self, src, w, W, sg):
        if W == w:
            return src
        if W < w:
            return f"({src} & {_mask(W)})"
        if sg:
            sb = 1 << (w - 1)
            return f"((({src} ^ {sb}) - {sb}) & {_mask(W)})"
        return src

    def sd(self, e):
        """self-determined evaluation: value truncated to L(e) bits, plus (L, signed)"""
        w = self.sc.L(e)
        s = self.sc.S(e)
        src = self.gx(e, w + self.extra, s)
        if self.extra:
            src = f"({src} & {_mask(w)})"
        return src, w, s

    def gx(self, e, W, sg):
        sc = self.sc
        k = e[0]
        M = _mask(W)
        if k == "num":
            w, s, val = e[1], e[2], e[3]
            if W < w:
                return str(val & M)
            if sg and s and (val >> (w - 1)) & 1:
                val = (val - (1 << w)) & M
            return str(val)
        if k == "id":
            name = e[1]
            if name in sc.mem:
                raise VlogSyntaxError(f"memory {name} used without an index")
            if name not in sc.sig:
                raise VlogSyntaxError(f"undeclared identifier {name}")
            self.reads.add(name)
            return self.ext(f"v[{self.sim.idx[name]}]", sc.sig[name][0], W, sg)
        if k == "part":
            sc.check_select(e)
            b = e[1]
            w = e[2] - e[3] + 1
            if b[0] == "id":
                if b[1] in self.sim.M.scalars:
                    raise VlogSyntaxError(f"part-select of scalar {b[1]}")
                self.reads.add(b[1])
                base = f"v[{self.sim.idx[b[1]]}]"
            else:
                base = self.memword(b)
            src = f"(({base} >> {e[3]}) & {_mask(w)})" if e[3] else f"({base} & {_mask(w)})"
            return self.ext(src, w, W, False)
        if k == "idx":
            if sc.is_memword(e):
                return self.ext(self.memword(e), sc.mem[e[1][1]][0], W, False)
            b = e[1]
            if b[0] != "id":
                raise VlogSyntaxError("bit-select of an expression")
            if b[1] not in sc.sig:
                raise VlogSyntaxError(f"undeclared identifier {b[1]}")
            if b[1] in self.sim.M.scalars:
                raise VlogSyntaxError(f"bit-select of scalar {b[1]}")
            self.reads.add(b[1])
            i = e[2]
            if i[0] == "num":
                if i[3] >= sc.sig[b[1]][0]:
                    raise VlogSyntaxError(f"bit-select [{i[3]}] outside {b[1]}")
                return f"((v[{self.sim.idx[b[1]]}] >> {i[3]}) & 1)"
            isrc, _, _ = self.sd(i)
            return f"((v[{self.sim.idx[b[1]]}] >> {isrc}) & 1)"
        if k == "concat":
            parts = []
            sh = sum(sc.L(x) for x in e[1])
            for x in e[1]:
                src, w, _ = self.sd(x)
                sh -= w
                parts.append(f"({src} << {sh})" if sh else src)
            return self.ext("(" + " | ".join(parts) + ")", sum(sc.L(x) for x in e[1]), W, False)
        if k == "repl":
            inner, w, _ = self.sd(("concat", e[2]))
            mult = sum(1 << (i * w) for i in range(e[1]))
            return self.ext(f"({inner} * {mult})", w * e[1], W, False)
        if k == "signed":
            src, w, _ = self.sd(e[1])
            return self.ext(src, w, W, sg)
        if k == "un":
            op = e[1]
            if op == "!":
                src, _, _ = self.sd(e[2])
                return f"(0 if {src} else 1)"
            a = self.gx(e[2], W, sg)
            if op == "-":
                return f"((-{a}) & {M})"
            if op == "~":
                return f"({a} ^ {M})"
            if op == "+":
                return a
            raise VlogUnsupported(f"unary {op}")
        if k == "tern":
            c, _, _ = self.sd(e[1])
            return f"({self.gx(e[2], W, sg)} if {c} else {self.gx(e[3], W, sg)})"
        if k == "bin":
            op = e[1]
            if op in CMP:
                w = max(sc.L(e[2]), sc.L(e[3])) + self.extra
                s = sc.S(e[2]) and sc.S(e[3])
                a = self.gx(e[2], w, s)
                b = self.gx(e[3], w, s)
                if s and op not in ("==", "!="):
                    sb = 1 << (w - 1)
                    a = f"({a} ^ {sb})"      # order-preserving map of two's complement onto unsigned
                    b = f"({b} ^ {sb})"
                return f"(1 if {a} {op} {b} else 0)"
            if op in LOGIC:
                a, _, _ = self.sd(e[2])
                b, _, _ = self.sd(e[3])
                return f"(1 if ({a} {'and' if op == '&&' else 'or'} {b}) else 0)"
            if op in SHIFT:
                a = self.gx(e[2], W, sg)
                n, _, _ = self.sd(e[3])
                if op in ("<<", "<<<"):
                    t = self.tmp()
                    return f"((({a}) << {t}) & {M} if ({t} := {n}) < {W} else 0)"
                if op == ">>>" and sg:
                    sb = 1 << (W - 1)
                    return f"(((({a} ^ {sb}) - {sb}) >> {n}) & {M})"
                return f"({a} >> {n})"
            if op in ARITH:
                a = self.gx(e[2], W, sg)
                b = self.gx(e[3], W, sg)
                if op in ("&", "|", "^"):
                    return f"({a} {op} {b})"
                return f"(({a} {op} {b}) & {M})"
            raise VlogUnsupported(f"operator {op}")
        raise VlogSyntaxError(f"node {k}")

    def memword(self, e):
        name = e[1][1]
        k = self.sim.memidx[name]
        self.reads.add("mem:" + name)
        i, _, _ = self.sd(e[2])
        return f"_rd(mems[{k}], {i})"

    # ---- statements ---------------------------------------------------------------------------------
    def store(self, l, val, ind, out, blocking):
        """val: python source of a value already masked to lwidth(l)"""
        p = "    " * ind
        sim = self.sim
        sc = self.sc
        k = l[0]
        if k == "id":
            name = l[1]
            if name in sc.mem:
                raise VlogSyntaxError(f"assignment to whole memory {name}")
            if name not in sc.sig:
                raise VlogSyntaxError(f"undeclared identifier {name}")
            self.writes.add(name)
            i = sim.idx[name]
            if blocking:
                out.append(f"{p}v[{i}] = {val}")
            else:
                out.append(f"{p}q.append(({i}, 0, {val}))")
        elif k == "part":
            sc.check_select(l)
            w = l[2] - l[3] + 1
            b = l[1]
            if b[0] == "id":
                if b[1] in sim.M.scalars:
                    raise VlogSyntaxError(f"part-select of scalar {b[1]}")
                self.writes.add(b[1])
                i = sim.idx[b[1]]
                keep = _mask(sc.sig[b[1]][0]) & ~(_mask(w) << l[3])
                if blocking:
                    out.append(f"{p}v[{i}] = (v[{i}] & {keep}) | (({val}) << {l[3]})")
                else:
                    out.append(f"{p}q.append(({i}, {keep}, ({val}) << {l[3]}))")
            else:  # part of a memory word
                name = b[1][1]
                mk = sim.memidx[name]
                self.writes.add("mem:" + name)
                a, _, _ = self.sd(b[2])
                keep = _mask(sc.mem[name][0]) & ~(_mask(w) << l[3])
                if blocking:
                    out.append(f"{p}_wr(mems[{mk}], {a}, {keep}, ({val}) << {l[3]})")
                else:
                    out.append(f"{p}qm.append(({mk}, {a}, {keep}, ({val}) << {l[3]}))")
        elif k == "idx":
            if sc.is_memword(l):
                name = l[1][1]
                mk = sim.memidx[name]
                self.writes.add("mem:" + name)
                a, _, _ = self.sd(l[2])
                if blocking:
                    out.append(f"{p}_wr(mems[{mk}], {a}, 0, {val})")
                else:
                    out.append(f"{p}qm.append(({mk}, {a}, 0, {val}))")
            else:
                b = l[1]
                if b[0] != "id" or b[1] not in sc.sig:
                    raise VlogSyntaxError("illegal bit-select target")
                if b[1] in sim.M.scalars:
                    raise VlogSyntaxError(f"bit-select of scalar {b[1]}")
                self.writes.add(b[1])
                i = sim.idx[b[1]]
                w = sc.sig[b[1]][0]
                full = _mask(w)
                if l[2][0] == "num":
                    n = l[2][3]
                    if n >= w:
                        raise VlogSyntaxError(f"bit-select [{n}] outside {b[1]}")
                    keep = full & ~(1 << n)
                    if blocking:
                        out.append(f"{p}v[{i}] = (v[{i}] & {keep}) | ((({val}) & 1) << {n})")
                    else:
                        out.append(f"{p}q.append(({i}, {keep}, (({val}) & 1) << {n}))")
                else:
                    n, _, _ = self.sd(l[2])
                    t = self.tmp()
                    out.append(f"{p}{t} = {n}")
                    out.append(f"{p}if {t} < {w}:")
                    if blocking:
                        out.append(f"{p}    v[{i}] = (v[{i}] & ({full} ^ (1 << {t}))) | ((({val}) & 1) << {t})")
                    else:
                        out.append(f"{p}    q.append(({i}, {full} ^ (1 << {t}), (({val}) & 1) << {t}))")
        elif k == "concat":
            t = self.tmp()
            out.append(f"{p}{t} = {val}")
            sh = sc.lwidth(l)
            for x in l[1]:
                w = sc.lwidth(x)
                sh -= w
                self.store(x, f"(({t} >> {sh}) & {_mask(w)})", ind, out, blocking)
        else:
            raise VlogSyntaxError(f"illegal assignment target {k}")

    def assign(self, l, r, ind, out, blocking):
        sc = self.sc
        lw = sc.lwidth(l)
        rw = sc.L(r)
        W = max(lw, rw) + self.extra
        src = self.gx(r, W, sc.S(r))
        if W > lw:
            src = f"({src} & {_mask(lw)})"
        self.store(l, src, ind, out, blocking)

    def stmt(self, s, ind, out):
        p = "    " * ind
        k = s[0]
        if k == "block":
            n0 = len(out)
            for x in s[1]:
                self.stmt(x, ind, out)
            if len(out) == n0:
                out.append(p + "pass")
        elif k == "if":
            c, _, _ = self.sd(s[1])
            out.append(f"{p}if {c}:")
            self.stmt(("block", [s[2]]), ind + 1, out)
            if s[3] is not None:
                out.append(f"{p}else:")
                self.stmt(("block", [s[3]]), ind + 1, out)
        elif k == "case":
            sc = self.sc
            allk = [kk for keys, _ in s[2] for kk in keys]
            w = max([sc.L(s[1])] + [sc.L(kk) for kk in allk]) + self.extra
            sg = sc.S(s[1]) and all(sc.S(kk) for kk in allk)
            t = self.tmp()
            out.append(f"{p}{t} = {self.gx(s[1], w, sg)}")
            first = True
            for keys, body in s[2]:
                cond = " or ".join(f"{t} == {self.gx(kk, w, sg)}" for kk in keys)
                out.append(f"{p}{'if' if first else 'elif'} {cond}:")
                first = False
                self.stmt(("block", [body]), ind + 1, out)
            if s[3] is not None:
                if first:
                    self.stmt(("block", [s[3]]), ind, out)
                else:
                    out.append(f"{p}else:")
                    self.stmt(("block", [s[3]]), ind + 1, out)
        elif k == "nba":
            self.assign(s[1], s[2], ind, out, False)
        elif k == "ba":
            self.assign(s[1], s[2], ind, out, True)
        elif k == "nop":
            out.append(p + "pass")
        else:
            raise VlogSyntaxError(f"statement {k}")


def _rd(m, i):
    return m[i] if i < len(m) else 0


def _wr(m, i, keep, val):
    if i < len(m):
        m[i] = (m[i] & keep) | val


class Sim:
    def __init__(self, text, data_files=None, extra=0, lenient_const_blocks=False):
        self.text = text
        self.extra = extra
        self.M = M = parse(text)
        self.scope = Scope(M.sig, M.mem)
        self.names = list(M.sig)
        self.idx = {n: i for i, n in enumerate(self.names)}
        self.width = {n: M.sig[n][0] for n in self.names}
        self.signed = {n: M.sig[n][1] for n in self.names}
        self.memnames = list(M.mem)
        self.memidx = {n: i for i, n in enumerate(self.memnames)}
        self.inputs = [n for n, d in M.ports.items() if d == "input"]
        self.data_files = dict(data_files or {})
        self.const_only_blocks = []     # source lines of always @(*) blocks with an empty implicit event list
        self.comb_cyclic = False
        self.self_triggering = 0
        self._compile(lenient_const_blocks)
        self._initial()
        self.reset()

    # ---------------------------------------------------------------------------------------------------
    def _compile(self, lenient):
        M = self.M
        procs = []   # (kind, reads, writes, lines)
        drivers = {}
        for kind, i in M.order:
            if kind == "assign":
                l, r, ln = M.assigns[i]
                g = _Gen(self)
                out = []
                g.assign(l, r, 1, out, True)
                procs.append(("assign", g.reads, g.writes, out, ln))
            elif kind == "comb":
                st, ln = M.combs[i]
                g = _Gen(self)
                out = []
                g.stmt(st, 1, out)
                if not g.reads:
                    self.const_only_blocks.append(dict(line=ln, targets=sorted(g.writes)))
                    if not lenient:
                        continue
                procs.append(("comb", g.reads, g.writes, out, ln))
        for kind, rd, wr, out, ln in procs:
            for w in wr:
                drivers.setdefault(w, []).append(ln)
            if kind == "assign":
                for w in wr:
                    if w in M.sig and M.sig[w][2] == "reg":
                        raise VlogSyntaxError(f"line {ln}: continuous assignment to reg {w}")
            else:
                for w in wr:
                    if w in M.sig and M.sig[w][2] != "reg":
                        raise VlogSyntaxError(f"line {ln}: procedural assignment to net {w}")
        self.comb_drivers = drivers
        # topological order of the comb processes (reads after writes); cyclic -> iterate to a fix-point
        n = len(procs)
        wmap = {}
        for j, pr in enumerate(procs):
            for w in pr[2]:
                wmap.setdefault(w, []).append(j)
        succ = [set() for _ in range(n)]
        indeg = [0] * n
        for j, pr in enumerate(procs):
            for r in pr[1]:
                for d in wmap.get(r, ()):
                    if d != j and j not in succ[d]:
                        succ[d].add(j)
                        indeg[j] += 1
                    elif d == j and pr[0] == "assign":
                        pass
        order = []
        ready = [j for j in range(n) if indeg[j] == 0]
        import heapq
        heapq.heapify(ready)
        while ready:
            j = heapq.heappop(ready)
            order.append(j)
            for k in sorted(succ[j]):
                indeg[k] -= 1
                if indeg[k] == 0:
                    heapq.heappush(ready, k)
        cyclic = len(order) != n
        # multiple comb drivers of one signal (bit-sliced drivers in different processes) also need iteration
        self.comb_cyclic = cyclic
        if cyclic:
            order = list(range(n))
        src = ["def settle(v, mems):"]
        body = []
        for j in order:
            kind, rd, wr, out, ln = procs[j]
            if kind == "assign":
                body += out
            else:
                blk = ["    q = []; qm = []"] + out
                blk.append("    for _i, _k, _x in q: v[_i] = (v[_i] & _k) | _x")
                blk.append("    for _m, _a, _k, _x in qm: _wr(mems[_m], _a, _k, _x)")
                rw = sorted(self.idx[x] for x in (rd & wr) if not x.startswith("mem:"))
                if rw and not cyclic:
                    # the block reads signals it assigns: its own NBAs re-trigger it (the implicit event list contains
                    # them) until they are stable
                    self.self_triggering += 1
                    tup = "(" + "".join(f"v[{i}], " for i in rw) + ")"
                    body.append("    for _st in range(200):")
                    body.append(f"        _o = {tup}")
                    body += ["    " + l for l in blk]
                    body.append(f"        if _o == {tup}: break")
                    body.append("    else: raise RuntimeError('always @(*) block at line %d keeps re-triggering itself')" % ln)
                else:
                    body += blk
        if not body:
            body = ["    pass"]
        if cyclic:
            src.append("    for _it in range(1000):")
            src.append("        _old = v[:]")
            src += ["    " + l for l in body]
            src.append("        if v == _old: return")
            src.append("    raise RuntimeError('combinational logic does not settle')")
        else:
            src += body
        # sync processes
        self.sync_clk = []
        for k, (clk, st, ln) in enumerate(M.syncs):
            if clk not in M.sig:
                raise VlogSyntaxError(f"line {ln}: undeclared clock {clk}")
            g = _Gen(self)
            out = []
            g.stmt(st, 1, out)
            for w in g.writes:
                if w in M.sig and M.sig[w][2] != "reg":
                    raise VlogSyntaxError(f"line {ln}: procedural assignment to net {w}")
                if w in drivers:
                    raise VlogSyntaxError(f"line {ln}: {w} driven from a clocked and a combinational process")
            src.append(f"def sync{k}(v, mems, q, qm):")
            src += out
            self.sync_clk.append(clk)
        self.source = "\n".join(src)
        ns = {"_rd": _rd, "_wr": _wr}
        exec(compile(self.source, "<vlog>", "exec"), ns)
        self._settle = ns["settle"]
        self._sync = [ns[f"sync{k}"] for k in range(len(M.syncs))]
        # clock aliases: assign x = y  (x then rises with y)
        alias = {}
        for l, r, ln in M.assigns:
            if l[0] == "id" and r[0] == "id":
                alias[l[1]] = r[1]
        self.clk_root = {}
        for clk in set(self.sync_clk):
            c = clk
            seen = set()
            while c in alias and c not in seen:
                seen.add(c)
                c = alias[c]
            self.clk_root[clk] = c
        self.state_names = sorted({w for k in range(len(M.syncs)) for w in self._sync_writes(k) if not w.startswith("mem:")})
        self.state_idx = [self.idx[n] for n in self.state_names]

    def _sync_writes(self, k):
        g = _Gen(self)
        g.stmt(self.M.syncs[k][1], 1, [])
        return g.writes

    def _initial(self):
        M = self.M
        v0 = [0] * len(self.names)
        for n, e in M.init.items():
            g = _Gen(self)
            w = M.sig[n][0]
            W = max(w, self.scope.L(e))
            src = g.gx(e, W, self.scope.S(e))
            if g.reads:
                raise VlogUnsupported(f"non-constant initialiser of {n}")
            v0[self.idx[n]] = eval(src, {"v": v0}) & _mask(w)
        # initial blocks with (constant) assignments: executed once at time 0, blocking immediately, NBAs afterwards.
        # The variables they assign change at time 0 (x -> value), which triggers every always @(*) that reads them.
        for st, ln in M.initials:
            g = _Gen(self)
            out = []
            g.stmt(st, 1, out)
            if g.reads:
                raise VlogUnsupported(f"line {ln}: initial block reading signals")
            for w in g.writes:
                if w.startswith("mem:") or M.sig[w][2] != "reg":
                    raise VlogSyntaxError(f"line {ln}: initial assignment to a net or memory")
            ns = {"_rd": _rd, "_wr": _wr}
            exec("def _init(v, mems, q, qm):\n" + "\n".join(out), ns)
            q = []
            ns["_init"](v0, [], q, [])
            for i, keep, x in q:
                v0[i] = (v0[i] & keep) | x
        self.v0 = v0
        mems0 = []
        for n in self.memnames:
            w, d = M.mem[n]
            words = [0] * d
            if n in M.readmem:
                fn = M.readmem[n]
                if fn not in self.data_files:
                    raise VlogSyntaxError(f"$readmemh file {fn} not among the data files")
                a = 0
                for tok in _strip_comments(self.data_files[fn]).split():
                    if tok.startswith("@"):
                        a = int(tok[1:], 16)
                        continue
                    if a < d:
                        words[a] = int(tok.replace("_", ""), 16) & _mask(w)
                    a += 1
            mems0.append(words)
        for n in M.readmem:
            if n not in M.mem:
                raise VlogSyntaxError(f"$readmemh into undeclared memory {n}")
        self.mems0 = mems0

    # ---------------------------------------------------------------------------------------------------
    def reset(self):
        self.v = list(self.v0)
        self.mems = [list(m) for m in self.mems0]

    def snapshot(self):
        return tuple(self.v), tuple(tuple(m) for m in self.mems)

    def restore(self, snap):
        self.v[:] = snap[0]
        for m, s in zip(self.mems, snap[1]):
            m[:] = s

    def get_state(self):
        """values of every reg assigned in a clocked block + all memory words (what persists across a clock edge)"""
        v = self.v
        return tuple([v[i] for i in self.state_idx]), tuple([tuple(m) for m in self.mems])

    def set_state(self, st):
        v = self.v
        for i, x in zip(self.state_idx, st[0]):
            v[i] = x
        for m, s in zip(self.mems, st[1]):
            m[:] = s

    def set(self, name, value):
        self.v[self.idx[name]] = value & _mask(self.width[name])

    def get(self, name):
        return self.v[self.idx[name]]

    def settle(self):
        self._settle(self.v, self.mems)

    def tick(self, clocks):
        """rising edge of the clock nets named in `clocks` (all posedge blocks read pre-edge values; NBAs after)"""
        q = []
        qm = []
        v, mems = self.v, self.mems
        for k, clk in enumerate(self.sync_clk):
            if clk in clocks or self.clk_root[clk] in clocks:
                self._sync[k](v, mems, q, qm)
        for i, keep, x in q:
            v[i] = (v[i] & keep) | x
        for m, a, keep, x in qm:
            _wr(mems[m], a, keep, x)
        self._settle(v, mems)


def _strip_comments(s):
    import re
    return re.sub(r"//[^\n]*", "", s)
