"""Replacement for migen.fhdl.tracer.get_var_name on CPython >= 3.11 (see DESIGN.md Appendix C).

Migen 0.9.2 looks for the CALL_FUNCTION opcode, which no longer exists, so every CSRStorage()/
CSRStatus()/ClockDomain() without an explicit name fails.  Same contract as the original: name of the
variable / attribute the call result is stored to, else None.  Influences *names* only.
"""
import dis, functools, logging
from migen.fhdl import tracer as _t

_STORE = {"STORE_NAME", "STORE_ATTR", "STORE_FAST", "STORE_DEREF", "STORE_GLOBAL"}
_SKIP  = {"LOAD_GLOBAL", "LOAD_ATTR", "LOAD_FAST", "LOAD_DEREF", "LOAD_NAME", "COPY", "BUILD_LIST", "CACHE",
          "LOAD_FAST_CHECK", "LOAD_FAST_AND_CLEAR", "PUSH_NULL", "LOAD_METHOD", "DUP_TOP"}
_CALLS = {"CALL", "CALL_FUNCTION_EX", "CALL_KW", "CALL_FUNCTION", "CALL_FUNCTION_KW", "CALL_METHOD"}

@functools.lru_cache(maxsize=None)
def _instrs(code):
    ins = list(dis.get_instructions(code))
    return ins, {i.offset: n for n, i in enumerate(ins)}

def get_var_name(frame):
    ins, byoff = _instrs(frame.f_code)
    n = byoff.get(frame.f_lasti)
    if n is None or ins[n].opname not in _CALLS:
        return None
    n += 1
    while n < len(ins):
        i = ins[n]
        if i.opname in _STORE:
            return i.argval
        if i.opname in _SKIP:
            n += 1
            continue
        return None
    return None

_t.get_var_name = get_var_name
logging.disable(logging.CRITICAL)
