"""Design: a real LiteX module passed through litex.gen.sim.core.Simulator.__init__ (the fragment explored
is the one LiteX simulates) + the two steppers (DESIGN.md §1-E1)."""
from migen.fhdl.structure import Signal
from migen.fhdl.tools import list_targets, list_signals
from litex.gen.sim.core import Simulator
from .fastsim import FastSim


class MachineryError(Exception):
    """The machinery disagrees with LiteX's own simulator or a harness is inconsistent (exit 2, never a VIOLATION)."""


class Design:
    def __init__(self, dut, clocks=("sys",), special_overrides=None, generators=None):
        self.dut = dut
        frag = dut.get_fragment() if hasattr(dut, "get_fragment") else dut
        # MemoryToArray iterates the *set* of specials (id-hashed, so the order of two memories differs from run to
        # run); hand it a duid-sorted list so that elaboration is reproducible (needed by replay).  The transform
        # replaces f.specials by a fresh set, nothing else sees the list.
        frag.specials = sorted(frag.specials, key=lambda x: x.duid)
        self.sim = sim = Simulator(frag, generators or [], clocks={c: 10 for c in clocks},
                                   special_overrides=special_overrides or {})
        f = self.f = sim.fragment
        unknown = set(f.sync.keys()) - set(clocks)
        if unknown:
            raise MachineryError(f"clock domains {unknown} not scheduled by the harness")
        sigs = set(list_signals(f))
        for cd in f.clock_domains:
            sigs.add(cd.clk)
            if cd.rst is not None:
                sigs.add(cd.rst)
        for arr in sim.evaluator.replaced_memories.values():
            sigs |= set(arr)
        sync_t = set()
        for cd, st in f.sync.items():
            sync_t |= list_targets(st)
        comb_t = list_targets(f.comb)
        sigs |= sync_t | comb_t
        order = sorted(sigs, key=lambda s: s.duid)
        self.fs = FastSim(sim, order)
        self.sigs = self.fs.c.sigs
        if len(self.sigs) != len(order):
            raise MachineryError("compiler met a signal outside the fragment's signal list")
        self.state_sigs = sorted(sync_t, key=lambda s: s.duid)
        self.S = [self.fs.idx(s) for s in self.state_sigs]
        clk = {cd.clk for cd in f.clock_domains}
        self.input_sigs = [s for s in order if s not in sync_t and s not in comb_t and s not in clk]
        self.comb_targets = comb_t
        self.sync_targets = sync_t
        both = sync_t & comb_t
        if both:
            raise MachineryError(f"signals driven from comb and sync: {both}")

    # -- index helpers ------------------------------------------------------------------------
    def i(self, sig):
        try:
            return self.fs.c.idx[sig]
        except KeyError:
            # a signal the lowered fragment never mentions: give it a slot so harnesses can drive/read it
            fs = self.fs
            k = fs.c.sid(sig)
            fs.reset.append(sig.reset.value)
            fs.v.append(sig.reset.value)
            fs.m.append(None)
            fs.n = len(fs.c.sigs)
            fs.rng = range(fs.n)
            if sig not in self.sync_targets and sig not in self.comb_targets:
                self.input_sigs.append(sig)
            return k

    def mentioned(self, sig):
        return sig in self.fs.c.idx

    def reset_state(self):
        return tuple(self.fs.reset[i] for i in self.S)

    def load(self, d):
        fs = self.fs
        v = fs.v
        v[:] = fs.reset
        for i, x in zip(self.S, d):
            v[i] = x
        return v

    def state(self):
        v = self.fs.v
        return tuple([v[i] for i in self.S])

    # -- the real evaluator ---------------------------------------------------------------------
    def real_step(self, d, vpre, cds):
        """Re-execute one transition on LiteX's own Evaluator: same source state, same input values.
        Returns (pre-edge valuation, post-edge valuation) as lists indexed like fs.v."""
        sim = self.sim
        ev = sim.evaluator
        ev.signal_values = {}
        ev.modifications = {}
        for s, x in zip(self.state_sigs, d):
            ev.signal_values[s] = x
        for s in self.input_sigs:
            ev.signal_values[s] = vpre[self.fs.c.idx[s]]
        ev.execute(sim.fragment.comb)
        sim._commit_and_comb_propagate()
        pre = [ev.signal_values.get(s, s.reset.value) for s in self.sigs]
        for cd in cds:
            if cd in sim.fragment.sync:
                ev.execute(sim.fragment.sync[cd])
        sim._commit_and_comb_propagate()
        post = [ev.signal_values.get(s, s.reset.value) for s in self.sigs]
        return pre, post

    def conform(self, d, vpre, vpost, cds, forced=None):
        """Compare a fast transition with the real evaluator on every signal.  `forced`: {index: value}
        first-flop sampling-fault overrides applied by the explorer after the edge (multi-clock CDC runs)."""
        pre, post = self.real_step(d, vpre, cds)
        clkidx = {self.fs.c.idx[cd.clk] for cd in self.f.clock_domains}
        for k, (a, b) in enumerate(zip(pre, vpre)):
            if a != b and k not in clkidx:
                raise MachineryError(f"fast/real stepper disagree before the edge on {self.sigs[k].backtrace[-1][0] if self.sigs[k].backtrace else k}: real {a} fast {b}")
        if forced:
            return
        for k, (a, b) in enumerate(zip(post, vpost)):
            if a != b and k not in clkidx:
                raise MachineryError(f"fast/real stepper disagree after the edge on {self.sigs[k].backtrace[-1][0] if self.sigs[k].backtrace else k}: real {a} fast {b}")


def cone_of_influence(D, roots):
    """Over-approximate set of signals that can influence the (next) value of `roots`: every target of a top-level
    statement depends on every signal mentioned in that statement (conditions included); closed transitively over
    comb and sync statements.  Used to *check* declarations of feed-forward (projected) registers."""
    from migen.fhdl.tools import list_signals as _ls, list_targets as _lt
    dep = {}
    def scan(stmts):
        for st in stmts:
            if isinstance(st, (list, tuple)):
                scan(st)
                continue
            tg = _lt(st)
            rd = _ls(st)
            for t in tg:
                dep.setdefault(t, set()).update(rd)
    scan(D.f.comb)
    for cd, st in D.f.sync.items():
        scan(st)
    seen, todo = set(), list(roots)
    while todo:
        s = todo.pop()
        for r in dep.get(s, ()):
            if r not in seen:
                seen.add(r)
                todo.append(r)
    return seen
