"""Breadth-first explicit-state exploration of (DUT state x environment/monitor state) to closure, with
transition conformance against the real evaluator, graph liveness and stock-simulator replay."""
import collections, hashlib, marshal, time
from .design import Design, MachineryError

COOP, PROGRESS, OUTPROG = 1, 2, 4        # edge flags; harnesses may use bits >= 8 for their own labels
TICK_A, TICK_B = 8, 16


class Harness:
    """Base class: closes a design with a non-deterministic environment and monitors (see DESIGN.md §1)."""
    name = "?"
    clocks = ("sys",)
    conf_every = 53
    conf_first = 150
    cap = 1_500_000
    time_cap = None        # seconds per configuration; default from VERIF_TIER (quick 300 s, thorough 900 s)
    live_queries = ()      # tuples (rule, must_mask, forbid_mask, fairness_masks, doc)
    special_overrides = None

    def build(self):
        raise NotImplementedError
    def bind(self, D):
        pass
    def env_init(self):
        return ()
    def choices(self, env):
        return [()]
    def drive(self, v, env, ch):
        pass
    react = None
    def observe(self, v, env, ch):
        return env, None, 0
    def ticks(self, env, ch):
        return self.clocks
    post = None
    faults = None          # (vpre, vpost, env, ch, cds) -> list of {index: value} alternatives (first is {} = none)
    def describe(self, ch):
        return ch
    def cover_report(self):
        return {}
    def vacuity(self):
        """return a message if an expected event class was never observed (harness error)."""
        return None


def _key(state):
    return hashlib.blake2b(marshal.dumps(state, 2), digest_size=12).digest()


class Result:
    def __init__(self, name):
        self.name = name
        self.states = 0
        self.transitions = 0
        self.conformed = 0
        self.violations = []      # dicts: rule, msg, trace, replayed
        self.exhaustive = True
        self.cap = None
        self.depth = 0
        self.wall = 0.0
        self.cover = {}
        self.live = {}
        self.sample = None

    def as_dict(self):
        return dict(cfg=self.name, states=self.states, transitions=self.transitions,
                    conformed=self.conformed, exhaustive=self.exhaustive, cap_hit=self.cap,
                    depth=self.depth, wall_s=round(self.wall, 2), cover=self.cover, liveness=self.live,
                    violations=self.violations, sample=self.sample)


class Explorer:
    def __init__(self, H, max_viol_rules=6, conformance=True, seed=0):
        self.H = H
        self.D = Design(H.build(), clocks=H.clocks, special_overrides=H.special_overrides)
        H.bind(self.D)
        self.conformance = conformance
        self.max_viol_rules = max_viol_rules
        self.seed = seed

    def run(self):
        H, D = self.H, self.D
        fs = D.fs
        t0 = time.time()
        res = Result(H.name)
        init = (D.reset_state(), H.env_init())
        ids = {_key(init): 0}
        parent = [-1]
        pchoice = [None]
        depth = [0]
        front = collections.deque([(0, init)])
        want_edges = bool(H.live_queries)
        edges = []           # (src, dst, flags)
        viol = {}
        ntr = 0
        nconf = 0
        Sidx = D.S
        react = H.react
        post = H.post
        faults = H.faults
        conf_every, conf_first = H.conf_every, H.conf_first
        cap = H.cap
        rot = self.seed
        import os as _os
        tcap = H.time_cap or (900 if _os.environ.get("VERIF_TIER_EFFECTIVE") == "thorough" else 300)
        npop = 0
        while front:
            npop += 1
            if not (npop & 1023) and time.time() - t0 > tcap:
                res.exhaustive = False
                res.cap = f"time>{tcap}s"
                break
            sid, st = front.popleft()
            d, env = st
            chs = H.choices(env)
            if rot and len(chs) > 1:
                k = rot % len(chs)
                chs = chs[k:] + chs[:k]
            for ch in chs:
                v = D.load(d)
                H.drive(v, env, ch)
                fs.settle()
                if react is not None:
                    n = 0
                    while react(v, env, ch):
                        fs.settle()
                        n += 1
                        if n > 8:
                            raise MachineryError(f"{H.name}: combinational loop through the environment")
                env2, err, flags = H.observe(v, env, ch)
                ntr += 1
                if err is not None:
                    rule = err[0]
                    if rule not in viol:
                        viol[rule] = dict(rule=rule, msg=err[1], trace=self.trace(parent, pchoice, sid) + [ch])
                    continue
                cds = H.ticks(env, ch)
                do_conf = self.conformance and (ntr <= conf_first or ntr % conf_every == 0)
                if do_conf or faults is not None:
                    vpre = list(v)
                fs.tick(cds)
                if do_conf:
                    D.conform(d, vpre, v, cds)
                    nconf += 1
                alts = [None]
                if faults is not None:
                    alts = faults(vpre, v, env, ch, cds) or [None]
                vbase = list(v) if len(alts) > 1 else None
                for forced in alts:
                    if forced:
                        if vbase is not None:
                            v[:] = vbase
                        for i, x in forced.items():
                            v[i] = x
                        fs.settle()
                    e2 = env2
                    if post is not None:
                        e2, err = post(v, env2, ch)
                        if err is not None:
                            rule = err[0]
                            if rule not in viol:
                                viol[rule] = dict(rule=rule, msg=err[1],
                                                  trace=self.trace(parent, pchoice, sid) + [(ch, forced) if forced else ch])
                            continue
                    ns = (tuple([v[i] for i in Sidx]), e2)
                    k = _key(ns)
                    nid = ids.get(k)
                    if nid is None:
                        nid = len(parent)
                        ids[k] = nid
                        parent.append(sid)
                        pchoice.append((ch, forced) if forced else ch)
                        depth.append(depth[sid] + 1)
                        front.append((nid, ns))
                    if want_edges:
                        edges.append((sid, nid, flags, (ch, forced) if forced else ch))
            if len(parent) > cap:
                res.exhaustive = False
                res.cap = cap
                break
            if len(viol) >= self.max_viol_rules:
                res.exhaustive = False
                break
        res.states = len(parent)
        res.transitions = ntr
        res.conformed = nconf
        res.depth = max(depth) if res.exhaustive else (depth[front[0][0]] if front else max(depth))
        # liveness on the closed graph; when a state / time cap stopped the search, on the part explored so far: the queries are existential
        # over cycles and every recorded edge is a real transition between reachable states, so a lasso found there is genuine (a change
        # that makes the state space explode is then still caught by the dead-lock it causes; silence of a capped run proves nothing)
        if want_edges and not viol and (res.exhaustive or res.cap is not None):
            for q in H.live_queries:
                rule, must, forbid, fair, doc = q
                lasso = find_fair_cycle(len(parent), edges, must, forbid, fair)
                res.live[rule] = dict(doc=doc, lassos=0 if lasso is None else 1)
                if lasso is not None:
                    u, cyc = lasso
                    stem = self.trace(parent, pchoice, u)
                    viol[rule] = dict(rule=rule, msg=f"{doc}: cycle of {len(cyc)} steps reachable after {len(stem)} steps",
                                      trace=stem, cycle=cyc)
        res.violations = list(viol.values())
        for vv in res.violations:
            vv["trace"] = [H.describe(c) for c in vv["trace"]]
            if "cycle" in vv:
                vv["cycle"] = [H.describe(c) for c in vv["cycle"]]
        res.cover = H.cover_report()
        if res.exhaustive and not viol:
            vac = H.vacuity()
            if vac:
                raise MachineryError(f"{H.name}: vacuous exploration: {vac}")
        # one sample trace: the deepest state's path
        if len(parent) > 1:
            res.sample = [H.describe(c) for c in self.trace(parent, pchoice, len(parent) - 1)][:12]
        res.wall = time.time() - t0
        self._parent, self._pchoice = parent, pchoice
        return res

    @staticmethod
    def trace(parent, pchoice, sid):
        tr = []
        while parent[sid] >= 0:
            tr.append(pchoice[sid])
            sid = parent[sid]
        return tr[::-1]


def find_fair_cycle(n, edges, must, forbid, fair):
    """Tarjan SCCs of the sub-graph of edges with all `must` bits and no `forbid` bit; returns the node list of a
    non-trivial SCC (or self-loop) that contains, for each mask in `fair`, an internal edge carrying it."""
    adj = collections.defaultdict(list)
    for s, t, fl, ch in edges:
        if (fl & must) == must and not (fl & forbid):
            adj[s].append((t, fl, ch))
    index = {}
    low = {}
    onst = set()
    stack = []
    cnt = 0
    for r in list(adj.keys()):
        if r in index:
            continue
        work = [(r, 0)]
        while work:
            u, pi = work[-1]
            if pi == 0:
                index[u] = low[u] = cnt
                cnt += 1
                stack.append(u)
                onst.add(u)
            rec = False
            au = adj.get(u, ())
            for j in range(pi, len(au)):
                w = au[j][0]
                if w not in index:
                    work[-1] = (u, j+1)
                    work.append((w, 0))
                    rec = True
                    break
                elif w in onst:
                    low[u] = min(low[u], index[w])
            if rec:
                continue
            if low[u] == index[u]:
                comp = []
                while True:
                    w = stack.pop()
                    onst.discard(w)
                    comp.append(w)
                    if w == u:
                        break
                cs = set(comp)
                internal = [fl for x in comp for (t, fl, ch) in adj.get(x, ()) if t in cs]
                if internal:
                    if all(any(fl & fm for fl in internal) for fm in fair):
                        return u, _cycle_in(cs, adj, u, fair)
            work.pop()
            if work:
                p = work[-1][0]
                low[p] = min(low[p], low[u])
    return None


def _path_in(cs, adj, a, b):
    """shortest edge path a -> b inside the node set cs (list of (dst, choice)); [] if a == b"""
    if a == b:
        return []
    prev = {a: None}
    dq = collections.deque([a])
    while dq:
        x = dq.popleft()
        for (t, fl, ch) in adj.get(x, ()):
            if t in cs and t not in prev:
                prev[t] = (x, ch)
                if t == b:
                    out = []
                    while prev[t] is not None:
                        x, ch = prev[t]
                        out.append(ch)
                        t = x
                    return out[::-1]
                dq.append(t)
    raise MachineryError("SCC path search failed")


def _cycle_in(cs, adj, u, fair):
    """a (not necessarily simple) cycle u -> u inside cs that uses an edge of every fairness mask"""
    cyc = []
    cur = u
    masks = list(fair) or [0]
    for fm in masks:
        done = False
        for x in cs:
            for (t, fl, ch) in adj.get(x, ()):
                if t in cs and (fm == 0 or fl & fm):
                    cyc += _path_in(cs, adj, cur, x) + [ch]
                    cur = t
                    done = True
                    break
            if done:
                break
    cyc += _path_in(cs, adj, cur, u)
    return cyc


# ---------------------------------------------------------------------------------------------------
# Replay of a counterexample on the stock LiteX simulator (no explorer involved)
# ---------------------------------------------------------------------------------------------------
def _split(step):
    if isinstance(step, tuple) and len(step) == 2 and isinstance(step[1], dict):
        return step
    return step, None


def _fast_pass(H_factory, trace):
    """Play the choices on the fast stepper, recording the complete input vector of every cycle."""
    H = H_factory()
    D = Design(H.build(), clocks=H.clocks, special_overrides=H.special_overrides)
    H.bind(D)
    fs = D.fs
    d, env = D.reset_state(), H.env_init()
    rec, log = [], []
    for step in trace:
        ch, forced = _split(step)
        v = D.load(d)
        H.drive(v, env, ch)
        fs.settle()
        if H.react is not None:
            while H.react(v, env, ch):
                fs.settle()
        inputs = {D.fs.c.idx[s]: v[D.fs.c.idx[s]] for s in D.input_sigs}
        env2, err, flags = H.observe(v, env, ch)
        cds = H.ticks(env, ch)
        rec.append((ch, inputs, cds, forced))
        if err is None:
            fs.tick(cds)
            if forced:
                for i, x in forced.items():
                    v[i] = x
                fs.settle()
            if H.post is not None:
                env2, err = H.post(v, env2, ch)
        log.append((err, flags, (D.state(), env2)))
        if err is not None:
            break
        d, env = D.state(), env2
    return D, rec, log


def _stock_generator_pass(H_factory, D, rec):
    """Single clock, no post-edge observer: the stock `Simulator.run()` loop with a generator that writes the
    recorded inputs; the monitor is re-evaluated on the values LiteX's simulator produces."""
    H2 = H_factory()
    box, log = {}, []
    def gen():
        D2, H2b = box["D"], box["H"]
        ev = D2.sim.evaluator
        env = H2b.env_init()
        for k, (ch, inputs, cds, forced) in enumerate(rec):
            v = [ev.signal_values.get(s, s.reset.value) for s in D2.sigs]
            env2, err, flags = H2b.observe(v, env, ch)
            box["last"] = (err, flags, env2)
            if err is not None:
                log.append((err, flags, None))
                return
            if k + 1 < len(rec):
                for i, x in rec[k+1][1].items():
                    yield D2.sigs[i].eq(x)
            yield
            # state after the edge is visible at the next call; record it lazily
            log.append((None, flags, env2))
            env = env2
    D2 = Design(H2.build(), clocks=H2.clocks, special_overrides=H2.special_overrides, generators=[gen()])
    H2.bind(D2)
    box["D"], box["H"] = D2, H2
    if [s.nbits for s in D2.sigs] != [s.nbits for s in D.sigs]:
        raise MachineryError("replay: elaboration is not reproducible (signal tables differ)")
    ev = D2.sim.evaluator
    for i, x in rec[0][1].items():
        ev.signal_values[D2.sigs[i]] = x
    D2.sim.run()
    if len(log) < len(rec) and "last" in box and (not log or log[-1][0] is None) and box["last"][0] is None:
        # the simulator stops when the generator is exhausted: the final edge was still executed
        log.append((None, box["last"][1], box["last"][2]))
    return log


def _stock_evaluator_pass(H_factory, D, rec):
    """Several clocks / sampling faults / post-edge observers: the recorded edge schedule through LiteX's
    own Evaluator, chaining its own state from reset (the stock TimeManager cannot produce arbitrary edge orders)."""
    H2 = H_factory()
    D2 = Design(H2.build(), clocks=H2.clocks, special_overrides=H2.special_overrides)
    H2.bind(D2)
    if [s.nbits for s in D2.sigs] != [s.nbits for s in D.sigs]:
        raise MachineryError("replay: elaboration is not reproducible (signal tables differ)")
    sim, ev = D2.sim, D2.sim.evaluator
    ev.signal_values = {}
    env = H2.env_init()
    log = []
    for k, (ch, inputs, cds, forced) in enumerate(rec):
        for i, x in inputs.items():
            ev.modifications[D2.sigs[i]] = x
        ev.execute(sim.fragment.comb)
        sim._commit_and_comb_propagate()
        v = [ev.signal_values.get(s, s.reset.value) for s in D2.sigs]
        env2, err, flags = H2.observe(v, env, ch)
        if err is None:
            for cd in cds:
                if cd in sim.fragment.sync:
                    ev.execute(sim.fragment.sync[cd])
            if forced:
                for i, x in forced.items():
                    ev.modifications[D2.sigs[i]] = x
            sim._commit_and_comb_propagate()
            if H2.post is not None:
                v = [ev.signal_values.get(s, s.reset.value) for s in D2.sigs]
                env2, err = H2.post(v, env2, ch)
        st = (tuple(ev.signal_values.get(s, s.reset.value) for s in D2.state_sigs), env2)
        log.append((err, flags, st))
        if err is not None:
            break
        env = env2
    return log


def replay_stock(H_factory, trace, cycle=None, live_query=None):
    """Replays a counterexample from reset on LiteX's own simulator.  Safety: the last step must raise the same
    rule.  Liveness (cycle given): stem + cycle + cycle; the state after both cycle iterations must be equal and
    every cycle edge must satisfy the query's must/forbid masks."""
    H0 = H_factory()
    full = list(trace) + (list(cycle) * 2 if cycle else [])
    D, rec, flog = _fast_pass(H_factory, full)
    ferr = flog[-1][0]
    multi = len(H0.clocks) > 1 or any(r[3] for r in rec) or H0.post is not None or cycle
    slog = _stock_evaluator_pass(H_factory, D, rec) if multi else _stock_generator_pass(H_factory, D, rec)
    out = dict(cycles=len(rec), path="evaluator" if multi else "Simulator.run+generator",
               fast_err=ferr, err=slog[-1][0] if slog else None)
    if cycle:
        n, c = len(trace), len(cycle)
        ok = len(slog) == n + 2*c and all(e[0] is None for e in slog)
        if ok:
            rule, must, forbid, fair, doc = live_query
            ok = all((slog[k][1] & must) == must and not (slog[k][1] & forbid) for k in range(n, n + 2*c))
            ok = ok and slog[n + c - 1][2] == slog[n + 2*c - 1][2]
        out["reproduced"] = bool(ok)
    else:
        out["reproduced"] = (out["err"] is not None and ferr is not None and out["err"][0] == ferr[0]
                             and len(slog) == len(flog))
    out["deterministic"] = True
    return out
