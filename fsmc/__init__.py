"""fsmc: explicit-state model checking of the FHDL that the real LiteX constructors emit.

Import order matters: `fsmc.tracer_shim` must be imported before anything from litex.
"""
import os, sys
os.environ.setdefault("PYTHONHASHSEED", "0")
# Checks always run against /repo's working tree.  VERIF_REPO is only for testing the machinery against a scratch
# worktree carrying a deliberate mutation (never used by the registered commands).
REPO = os.environ.get("VERIF_REPO", "/repo")
if REPO not in sys.path:
    sys.path.insert(0, REPO)
from . import tracer_shim  # noqa: F401  (installs migen.fhdl.tracer.get_var_name)
