"""fsmc: explicit-state model checking of the FHDL that the real LiteX constructors emit.

Import order matters: `fsmc.tracer_shim` must be imported before anything from litex.
"""
import os, sys
os.environ.setdefault("PYTHONHASHSEED", "0")
if "/repo" not in sys.path:
    sys.path.insert(0, "/repo")
from . import tracer_shim  # noqa: F401  (installs migen.fhdl.tracer.get_var_name)
