import sys, os, argparse
from . import tracer_shim  # noqa
from .runner import main, CHECKS

def cli():
    ap = argparse.ArgumentParser()
    ap.add_argument("prop")
    ap.add_argument("--tier", default=os.environ.get("VERIF_TIER", "quick"), choices=["quick", "thorough"])
    ap.add_argument("--replay")
    ap.add_argument("--only")
    ap.add_argument("--jobs", type=int)
    a = ap.parse_args()
    seed = int(os.environ.get("VERIF_SEED", "0") or 0)
    if a.prop not in CHECKS:
        print("unknown property", a.prop); sys.exit(2)
    sys.exit(main(a.prop, a.tier, seed, a.replay, a.only, a.jobs))

if __name__ == "__main__":
    cli()
