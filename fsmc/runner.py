"""Runner shared by all checks: configuration pool, known-findings classification, evidence, exit codes."""
import os, sys, json, time, hashlib, re, traceback, importlib, multiprocessing, signal

VERIF = os.path.dirname(os.path.dirname(os.path.abspath(__file__)))

CHECKS = {
    "C01": "checks.c01_verilog",
    "C02": "checks.c02_names",
    "C03": "checks.c03_streams",
    "C04": "checks.c04_handshake",
    "C05": "checks.c05_cdc",
    "C06": "checks.c06_wishbone_ic",
    "C07": "checks.c07_wishbone_mem",
    "C08": "checks.c08_axi_ic",
    "C09": "checks.c09_bridges",
    "C10": "checks.c10_axi_burst",
    "C11": "checks.c11_timeouts",
    "C12": "checks.c12_csr",
    "C13": "checks.c13_soc_alloc",
    "C14": "checks.c14_exports",
    "C15": "checks.c15_events",
    "C16": "checks.c16_packet",
    "C17": "checks.c17_8b10b",
    "C18": "checks.c18_ecc",
    "C19": "checks.c19_periph",
    "C20": "checks.c20_pll",
}


def _worker(args):
    modname, cfg, seed, tier = args
    try:
        mod = importlib.import_module(modname)
        t0 = time.time()
        r = mod.run_config(cfg, seed, tier)
        r.setdefault("wall_s", round(time.time() - t0, 2))
        return r
    except BaseException as e:  # machinery error: reported, never a VIOLATION
        return dict(cfg=str(cfg[0] if isinstance(cfg, (tuple, list)) else cfg), machinery_error=traceback.format_exc())


def load_known():
    p = os.path.join(VERIF, "known_findings.json")
    if not os.path.exists(p):
        return []
    return json.load(open(p))["findings"]


def match_known(known, prop, cfg, rule):
    for k in known:
        if k["property"] != prop or k.get("status") != "open":
            continue
        if re.search(k["cfg"], cfg) and re.search(k["rule"], rule):
            return k
    return None


def main(prop, tier="quick", seed=0, replay=None, only=None, jobs=None):
    sys.path.insert(0, VERIF)
    os.chdir(VERIF)
    modname = CHECKS[prop]
    mod = importlib.import_module(modname)
    if replay:
        rec = json.load(open(replay))
        out = mod.replay(rec)
        print(json.dumps(out, indent=1, default=str))
        if out.get("reproduced"):
            print(f"VIOLATION property={prop} replay={os.path.abspath(replay)}")
            return 1
        return 0
    t0 = time.time()
    os.environ["VERIF_TIER_EFFECTIVE"] = tier
    cfgs = mod.configs(tier)
    if tier == "quick":
        # configurations registered as thorough-only that cost a few seconds are run in quick as well (fsmc/quick_promote.json, generated
        # from the timings of a thorough sweep): the menus of the two tiers differ in cost, not in kind
        try:
            promote = set(json.load(open(os.path.join(VERIF, "fsmc", "quick_promote.json"))).get(prop, []))
        except (OSError, ValueError):
            promote = set()
        if promote:
            have = {str(c[0]) for c in cfgs}
            cfgs = cfgs + [c for c in mod.configs("thorough") if str(c[0]) in promote and str(c[0]) not in have]
    if only:
        cfgs = [c for c in cfgs if re.search(only, str(c[0]))]
    # seed permutes the order of configurations only (and, inside the explorer, of environment choices)
    if seed:
        k = seed % max(1, len(cfgs))
        cfgs = cfgs[k:] + cfgs[:k]
    jobs = jobs or int(os.environ.get("VERIF_JOBS", "16"))
    work = [(modname, c, seed, tier) for c in cfgs]
    results = []
    if jobs > 1 and len(work) > 1:
        ctx = multiprocessing.get_context("fork")
        with ctx.Pool(min(jobs, len(work)), maxtasksperchild=getattr(mod, "MAXTASKS", 8)) as pool:
            for r in pool.imap_unordered(_worker, work, chunksize=1):
                results.append(r)
    else:
        for w in work:
            results.append(_worker(w))
    results.sort(key=lambda r: str(r.get("cfg")))
    known = load_known()
    merr = [r for r in results if "machinery_error" in r]
    viol_new, viol_known = [], {}
    scratch_run = bool(only) or os.environ.get("VERIF_REPO", "/repo") != "/repo"
    replay_root = os.path.join("/tmp", "verif_scratch_replays") if scratch_run else os.path.join(VERIF, "replays")
    os.makedirs(os.path.join(replay_root, prop), exist_ok=True)
    for r in results:
        for v in r.get("violations", []):
            vprop = v.get("property", prop)
            if vprop != prop:
                continue
            k = match_known(known, prop, str(r["cfg"]), v["rule"])
            recd = dict(property=prop, cfg=r["cfg"], cfg_args=r.get("cfg_args"), rule=v["rule"], msg=v["msg"],
                        trace=v.get("trace"), cycle=v.get("cycle"), replayed=v.get("replayed"), detail=v.get("detail"))
            if k is not None:
                viol_known.setdefault(k["id"], []).append(recd)
            else:
                h = hashlib.sha1(json.dumps([recd["cfg"], recd["rule"]], default=str).encode()).hexdigest()[:12]
                path = os.path.join(replay_root, prop, h + ".json")
                json.dump(recd, open(path, "w"), indent=1, default=str)
                viol_new.append((recd, path))
    # summary lines
    tot = dict(states=0, transitions=0, conformed=0, evaluations=0, distinct=0)
    for r in results:
        for k in tot:
            tot[k] += int(r.get(k, 0) or 0)
    for r in results:
        if getattr(mod, "VERBOSE", True):
            print("  cfg %-58s %s" % (str(r.get("cfg"))[:58], " ".join(f"{k}={r[k]}" for k in ("states", "transitions", "conformed", "evaluations", "distinct", "exhaustive", "wall_s") if k in r)
                  + (" VIOL:" + ",".join(v["rule"] for v in r.get("violations", [])) if r.get("violations") else "")
                  + (" MACHINERY-ERROR" if "machinery_error" in r else "")))
    for kid, lst in sorted(viol_known.items()):
        k = [x for x in known if x["id"] == kid][0]
        print(f"KNOWN-FINDING: property={prop} {kid} {k['what']} [{len(lst)} configuration(s), e.g. {lst[0]['cfg']}: {lst[0]['rule']}]")
    not_repro = [k["id"] for k in known if k["property"] == prop and k.get("status") == "open" and k["id"] not in viol_known
                 and (tier == "thorough" or not k.get("thorough_only"))]
    for kid in not_repro:
        print(f"note: open known finding {kid} did not reproduce in this run")
    for recd, path in viol_new:
        print(f"  violation cfg={recd['cfg']} rule={recd['rule']}: {recd['msg']}")
        print(f"VIOLATION property={prop} replay={path}")
    for r in merr:
        print(f"MACHINERY ERROR in {r['cfg']}:\n{r['machinery_error']}", file=sys.stderr)
    wall = time.time() - t0
    # evidence
    level = getattr(mod, "LEVEL", "model_checking")
    exhaustive = all(r.get("exhaustive", True) for r in results) and not merr
    samples = []
    for r in results:
        if r.get("sample") is not None and len(samples) < 6:
            samples.append(dict(cfg=r["cfg"], trace=r["sample"]))
    if not samples:
        samples = [dict(cfg=r.get("cfg")) for r in results[:3]]
    cov = dict(exhaustive=exhaustive, configs=len(results),
               caps_hit=[r["cfg"] for r in results if r.get("cap_hit")],
               samples=samples,
               per_config=[{k: r[k] for k in r if k not in ("violations", "sample", "machinery_error", "cfg_args")} for r in results],
               known_findings_reproduced=sorted(viol_known), known_findings_not_reproduced=not_repro,
               known_findings_rules={kid: sorted({x["rule"] for x in lst}) for kid, lst in sorted(viol_known.items())},
               rule=getattr(mod, "RULE", ""))
    if level == "model_checking":
        cov.update(states=tot["states"], transitions=tot["transitions"], traces_validated_against_impl=tot["conformed"])
    else:
        cov.update(evaluations=tot["evaluations"], distinct_nontrivial=tot["distinct"])
        if tot["states"]:
            cov.update(states=tot["states"], transitions=tot["transitions"])
    if hasattr(mod, "extra_coverage"):
        cov.update(mod.extra_coverage(results))
    ev = dict(property_id=prop, tier=tier, seed=seed, level=level, coverage=cov,
              assumptions=list(getattr(mod, "ASSUMPTIONS", [])), wall_s=round(wall, 2),
              violations=len(viol_new))
    # Runs against a scratch worktree (VERIF_REPO) or over a subset of the configurations (--only) are for testing the
    # machinery: they must not overwrite the evidence of the registered command.
    scratch = bool(only) or os.environ.get("VERIF_REPO", "/repo") != "/repo"
    evdir = os.path.join("/tmp", "verif_scratch_evidence") if scratch else os.path.join(VERIF, "evidence")
    os.makedirs(evdir, exist_ok=True)
    tmp = os.path.join(evdir, prop + ".json.tmp")
    json.dump(ev, open(tmp, "w"), indent=1, default=str)
    os.replace(tmp, os.path.join(evdir, prop + ".json"))
    print(f"{prop} tier={tier} seed={seed}: configs={len(results)} " + " ".join(f"{k}={v}" for k, v in tot.items() if v)
          + f" exhaustive={exhaustive} new_violations={len(viol_new)} known={len(viol_known)} wall={wall:.1f}s")
    # violations are genuine whatever else happened (each was re-played on the real code): exit 1.  Machinery errors alone: exit 2 (the run
    # decided nothing for those configurations; on a changed tree they are usually a consequence of the change, see DESIGN 6)
    if viol_new:
        return 1
    if merr:
        return 2
    return 0
