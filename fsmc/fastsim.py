"""FastStepper: compiles the lowered fragment of a litex.gen.sim.core.Simulator into straight-line Python
that mirrors `Evaluator` operation for operation (DESIGN.md Appendix A).  Not trusted: `Design.conform`
re-executes sampled transitions on the real evaluator and compares *all* signals.
"""
import collections
from migen.fhdl.structure import *
from migen.fhdl.structure import _Operator, _Slice, _ArrayProxy, _Assign, _Value
from migen.fhdl.bitcontainer import value_bits_sign
from migen.fhdl.specials import _MemoryLocation


class Compiler:
    def __init__(self, fragment, replaced_memories):
        self.f = fragment
        self.cds = fragment.clock_domains
        self.mems = replaced_memories
        self.idx = {}
        self.sigs = []
        self.uid = 0

    def sid(self, s):
        i = self.idx.get(s)
        if i is None:
            i = len(self.sigs)
            self.idx[s] = i
            self.sigs.append(s)
        return i

    def tmp(self, p):
        self.uid += 1
        return f"_{p}{self.uid}"

    def ex(self, n, post=False):
        if isinstance(n, Constant):
            return repr(n.value)
        if isinstance(n, Signal):
            i = self.sid(n)
            return f"(m[{i}] if m[{i}] is not None else v[{i}])" if post else f"v[{i}]"
        if isinstance(n, _Operator):
            o = [self.ex(x, post) for x in n.operands]
            op = n.op
            if op == "-" and len(o) == 1:
                return f"(-{o[0]})"
            if op == "~":
                return f"(~{o[0]})"
            if op == "m":
                return f"({o[1]} if {o[0]} else {o[2]})"
            pyop = {">>>": ">>", "<<<": "<<"}.get(op, op)
            if pyop in ("<", "<=", "==", "!=", ">", ">="):
                return f"({o[0]} {pyop} {o[1]})"
            return f"({o[0]} {pyop} {o[1]})"
        if isinstance(n, _Slice):
            return f"(({self.ex(n.value, post)} >> {n.start}) & {2**(n.stop-n.start)-1})"
        if isinstance(n, Cat):
            parts = []
            sh = 0
            for e in n.l:
                nb = len(e)
                parts.append(f"(({self.ex(e, post)} & {2**nb-1}) << {sh})")
                sh += nb
            return "(" + " | ".join(parts) + ")" if parts else "0"
        if isinstance(n, Replicate):
            nb = len(n.v)
            mult = sum(1 << (i*nb) for i in range(n.n))
            return f"(({self.ex(n.v, post)} & {2**nb-1}) * {mult})"
        if isinstance(n, _ArrayProxy):
            ch = ", ".join(self.ex(c, post) for c in n.choices)
            return f"(({ch},)[min({len(n.choices)-1}, {self.ex(n.key, post)})])"
        if isinstance(n, _MemoryLocation):
            ch = ", ".join(self.ex(c, post) for c in self.mems[n.memory])
            return f"(({ch},)[{self.ex(n.index, post)}])"
        if isinstance(n, ClockSignal):
            return self.ex(self.cds[n.cd].clk, post)
        if isinstance(n, ResetSignal):
            rst = self.cds[n.cd].rst
            if rst is None:
                if n.allow_reset_less:
                    return "0"
                raise ValueError("reset of resetless domain " + n.cd)
            return self.ex(rst, post)
        raise NotImplementedError(type(n))

    def asg(self, lhs, val, ind, out):
        p = "    " * ind
        if isinstance(lhs, Signal):
            i = self.sid(lhs)
            nb = lhs.nbits
            if lhs.signed:
                t = self.tmp("t")
                out.append(f"{p}{t} = ({val}) & {2**nb-1}")
                out.append(f"{p}m[{i}] = {t} - {2**nb} if {t} & {2**(nb-1)} else {t}")
            else:
                out.append(f"{p}m[{i}] = ({val}) & {2**nb-1}")
        elif isinstance(lhs, Cat):
            t = self.tmp("c")
            out.append(f"{p}{t} = {val}")
            for e in lhs.l:
                nb = len(e)
                self.asg(e, f"{t} & {2**nb-1}", ind, out)
                out.append(f"{p}{t} >>= {nb}")
        elif isinstance(lhs, _Slice):
            full = self.ex(lhs.value, True)
            mask = (2**lhs.stop - 1) - (2**lhs.start - 1)
            w = lhs.stop - lhs.start
            self.asg(lhs.value, f"(({full}) & {~mask}) | ((({val}) & {2**w-1}) << {lhs.start})", ind, out)
        elif isinstance(lhs, (_ArrayProxy, _MemoryLocation)):
            if isinstance(lhs, _ArrayProxy):
                choices = lhs.choices
                keyx = f"min({len(choices)-1}, {self.ex(lhs.key)})"
            else:
                choices = self.mems[lhs.memory]
                keyx = self.ex(lhs.index)
            key = self.tmp("k")
            tv = self.tmp("v")
            out.append(f"{p}{key} = {keyx}")
            out.append(f"{p}{tv} = {val}")
            if isinstance(lhs, _ArrayProxy):
                out.append(f"{p}if {key} < 0: {key} += {len(choices)}")
            for j, c in enumerate(choices):
                out.append(f"{p}{'if' if j == 0 else 'elif'} {key} == {j}:")
                k0 = len(out)
                self.asg(c, tv, ind+1, out)
                if len(out) == k0:
                    out.append(p + "    pass")
            if isinstance(lhs, _MemoryLocation):
                out.append(f"{p}else: raise IndexError('memory index out of range')")
        else:
            raise NotImplementedError(type(lhs))

    def block(self, stmts, ind, out):
        k = len(out)
        self.st(stmts, ind, out)
        if len(out) == k:
            out.append("    "*ind + "pass")

    def st(self, stmts, ind, out):
        p = "    " * ind
        for s in stmts:
            if isinstance(s, _Assign):
                self.asg(s.l, self.ex(s.r), ind, out)
            elif isinstance(s, If):
                out.append(f"{p}if ({self.ex(s.cond)}) & {2**len(s.cond)-1}:")
                self.block(s.t, ind+1, out)
                if s.f:
                    out.append(f"{p}else:")
                    self.block(s.f, ind+1, out)
            elif isinstance(s, Case):
                nb, sg = value_bits_sign(s.test)
                t = self.tmp("s")
                out.append(f"{p}{t} = ({self.ex(s.test)}) & {2**nb-1}")
                if sg:
                    out.append(f"{p}if {t} & {2**(nb-1)}: {t} -= {2**nb}")
                first = True
                for k, v in s.cases.items():
                    if isinstance(k, Constant):
                        out.append(f"{p}{'if' if first else 'elif'} {t} == {k.value}:")
                        first = False
                        self.block(v, ind+1, out)
                if "default" in s.cases:
                    if first:
                        self.st(s.cases["default"], ind, out)
                    else:
                        out.append(f"{p}else:")
                        self.block(s.cases["default"], ind+1, out)
            elif isinstance(s, collections.abc.Iterable):
                self.st(s, ind, out)
            elif isinstance(s, (Display, Finish)):
                pass
            else:
                raise NotImplementedError(type(s))

    def func(self, name, stmts):
        out = [f"def {name}(v, m):"]
        self.block(stmts, 1, out)
        return "\n".join(out)


class FastSim:
    def __init__(self, sim, all_signals):
        self.sim = sim
        f = sim.fragment
        c = self.c = Compiler(f, sim.evaluator.replaced_memories)
        for s in all_signals:
            c.sid(s)
        src = [c.func("comb", f.comb)] + [c.func("sync_" + cd, st) for cd, st in f.sync.items()]
        self.source = "\n\n".join(src)
        ns = {}
        exec(compile(self.source, "<fastsim>", "exec"), ns)
        self.comb = ns["comb"]
        self.sync = {cd: ns["sync_"+cd] for cd in f.sync}
        self.n = len(c.sigs)
        self.reset = [s.reset.value for s in c.sigs]
        self.v = list(self.reset)
        self.m = [None]*self.n
        self.rng = range(self.n)

    def idx(self, s):
        return self.c.idx[s]

    def commit(self):
        v, m = self.v, self.m
        ch = False
        for i in self.rng:
            x = m[i]
            if x is not None:
                if v[i] != x:
                    v[i] = x
                    ch = True
                m[i] = None
        return ch

    def settle(self):
        self.comb(self.v, self.m)
        ch = self.commit()
        n = 0
        while ch:
            self.comb(self.v, self.m)
            ch = self.commit()
            n += 1
            if n > 200:
                raise RuntimeError("combinational logic does not settle")

    def tick(self, cds=("sys",)):
        for cd in cds:
            fn = self.sync.get(cd)
            if fn is not None:
                fn(self.v, self.m)
        self.commit()
        self.settle()
